// hist.rs — history runner (apply user operations and ruler invocations to a World) and the
// oracles that are evaluated on each invocation's recorded history.

use std::collections::{BTreeMap, BTreeSet};
use std::sync::Arc;

use crate::build::{self, BuildError, BuildParams};
use crate::work::WorkError;

use super::model::{self, ModelResult, Outcome, FailKind, GraphError};
use super::rt::{self, Ev, Event, FsOp, Origin, SchedSpec, RootResult, Abort, FileMap};
use super::scen::{Case, Op, SRule, DirPart, ruler_dir, split_rules};
use super::simsys::{World, Disk, Printed, RecPrinter};
use super::util::{cache_name_of, show_bytes, H64};

pub const STEP_BOUND : u32 = 150_000;

// ---------------------------------------------------------------- verdicts

#[derive(Clone, Debug, PartialEq, Eq, PartialOrd, Ord)]
pub enum ErrClass
{
    FileNotFound(String),
    TargetNotGenerated(String),
    CommandErrored,
    Contradiction(Vec<String>),
    Other(String),
}

#[derive(Clone, Debug, PartialEq)]
pub enum Verdict
{
    Ok,
    WorkErrors(Vec<ErrClass>),
    OtherError(String),
    Panic(String),
    Abort(String),
}

impl Verdict
{
    pub fn short(&self) -> String
    {
        match self
        {
            Verdict::Ok => "Ok".to_string(),
            Verdict::WorkErrors(v) =>
            {
                let mut s = v.clone();
                s.sort();
                format!("WorkErrors{:?}", s)
            },
            Verdict::OtherError(e) => format!("Error({})", e),
            Verdict::Panic(m) => format!("Panic({})", m),
            Verdict::Abort(m) => format!("Abort({})", m),
        }
    }

    /* canonical form for comparisons across schedules: error multiset, order-insensitive */
    pub fn canonical(&self) -> String
    {
        self.short()
    }

    pub fn returned(&self) -> bool
    {
        match self
        {
            Verdict::Ok | Verdict::WorkErrors(_) | Verdict::OtherError(_) => true,
            _ => false,
        }
    }
}

fn first_word(s : &str) -> String
{
    let end = s.find(|c : char| !(c.is_alphanumeric() || c == '_')).unwrap_or(s.len());
    s[..end].to_string()
}

fn classify_work_error(e : &WorkError) -> ErrClass
{
    match e
    {
        WorkError::FileNotFound(p) => ErrClass::FileNotFound(p.clone()),
        WorkError::TargetFileNotGenerated(p) => ErrClass::TargetNotGenerated(p.clone()),
        WorkError::CommandExecutedButErrored => ErrClass::CommandErrored,
        WorkError::Contradiction(v) => ErrClass::Contradiction(v.clone()),
        WorkError::ResolutionError(r) => ErrClass::Other(format!("ResolutionError::{}", first_word(&format!("{:?}", r)))),
        other => ErrClass::Other(first_word(&format!("{:?}", other))),
    }
}

fn classify(r : &Result<(), BuildError>) -> Verdict
{
    match r
    {
        Ok(()) => Verdict::Ok,
        Err(BuildError::WorkErrors(v)) => Verdict::WorkErrors(v.iter().map(classify_work_error).collect()),
        Err(BuildError::TopologicalSortFailed(e)) => Verdict::OtherError(format!("TopologicalSortFailed::{}", first_word(&format!("{:?}", e)))),
        Err(other) => Verdict::OtherError(first_word(&format!("{:?}", other))),
    }
}

// ---------------------------------------------------------------- one invocation

pub struct InvResult
{
    pub verdict : Verdict,
    /* what the user is shown for a WorkErrors result: (Display of the whole error, Display of each entry) */
    pub report : Option<(String, Vec<String>)>,
    pub events : Vec<Event>,
    pub printed : Vec<Printed>,
    pub record : Vec<(u32, u16)>,
    pub decisions : u32,
    pub steps : u32,
    pub threads : usize,
    pub thread_panics : Vec<(u16, String)>,
    pub detached_at_exit : Vec<u16>,
    pub abort : Option<Abort>,
    /* simulated clock ticks that passed during the invocation */
    pub clock_ticks : u64,
}

pub fn invoke(world : &World, is_build : bool, goal : Option<String>, rulefiles : Vec<String>, sched : SchedSpec) -> InvResult
{
    let clock_before = world.snapshot().1;
    // the bound grows with the workspace (a crowd of 220 rules over 300 leaves legitimately takes
    // 30 000+ visible operations): 150 000 + 400 per file on the disk
    let step_bound = STEP_BOUND.saturating_add(400u32.saturating_mul(world.snapshot().0.file_count() as u32));
    world.tick();
    let sys = world.system();
    let mut printer = RecPrinter::new();
    let out =
    {
        let p = &mut printer;
        rt::run_sim(sched, step_bound, move ||
        {
            if is_build
            {
                build::build(sys, p, BuildParams::from_all(ruler_dir(), rulefiles, None, goal))
            }
            else
            {
                build::clean(sys, &ruler_dir(), rulefiles, goal)
            }
        })
    };
    world.gc();
    world.tick();

    let verdict = match &out.result
    {
        RootResult::Returned(r) => classify(r),
        RootResult::Panicked(m) => Verdict::Panic(m.clone()),
        RootResult::Aborted(a) => Verdict::Abort(match a
        {
            Abort::Deadlock(d) => format!("deadlock {:?}", d),
            Abort::StepBound(n) => format!("step bound {} exceeded", n),
            Abort::RootDone => "root done".to_string(),
        }),
    };

    let report = match &out.result
    {
        RootResult::Returned(Err(e @ BuildError::WorkErrors(v))) => Some((format!("{}", e), v.iter().map(|w| format!("{}", w)).collect())),
        _ => None,
    };

    InvResult
    {
        verdict : verdict,
        report : report,
        events : out.events,
        printed : printer.lines,
        record : out.record,
        decisions : out.decisions,
        steps : out.steps,
        threads : out.threads,
        thread_panics : out.thread_panics,
        detached_at_exit : out.detached_at_exit,
        abort : out.abort,
        clock_ticks : world.snapshot().1 - clock_before,
    }
}

// ---------------------------------------------------------------- helpers over disks and events

pub fn cache_dir() -> String { format!("{}/cache", &ruler_dir()) }
pub fn history_dir() -> String { format!("{}/history", &ruler_dir()) }
pub fn table_path() -> String { format!("{}/current_file_states", &ruler_dir()) }

pub fn in_ruler_dir(path : &str) -> bool
{
    path == &ruler_dir() || path.starts_with(&format!("{}/", &ruler_dir()))
}

pub fn in_cache(path : &str) -> bool
{
    path.starts_with(&format!("{}/cache/", &ruler_dir()))
}

pub fn cache_contents(disk : &Disk) -> Vec<(String, Arc<Vec<u8>>)>
{
    disk.files_under(&cache_dir())
}

/* Scripts (as handed to execute_command) that started in this invocation, in order. */
pub fn command_log(events : &[Event]) -> Vec<Vec<String>>
{
    events.iter().filter_map(|e| match &e.kind { Ev::CmdStart{ script, .. } => Some(script.clone()), _ => None }).collect()
}

pub fn is_mutating(op : FsOp) -> bool
{
    match op
    {
        FsOp::CreateFile | FsOp::CreateDir | FsOp::Rename | FsOp::SetExecutable | FsOp::Write => true,
        _ => false,
    }
}

/* Hash of the conflict order: for every shared object (channel, path) the sequence of (thread, op)
   acting on it.  Two executions with the same hash differ only in the order of independent
   operations (same Mazurkiewicz class as far as the log can tell). */
pub fn conflict_hash(events : &[Event]) -> u64
{
    let mut per : BTreeMap<String, H64> = BTreeMap::new();
    for e in events
    {
        let keys : Vec<(String, u64)> = match &e.kind
        {
            Ev::Send{ chan, ok } => vec![(format!("c{}", chan), 1 + *ok as u64)],
            Ev::Recv{ chan, ok } => vec![(format!("c{}", chan), 3 + *ok as u64)],
            Ev::DropRx(chan) => vec![(format!("c{}", chan), 5)],
            Ev::DropTx{ chan, .. } => vec![(format!("c{}", chan), 6)],
            Ev::Fs{ op, path, path2, ok, .. } =>
            {
                let code = 10 + (*op as u64) * 2 + *ok as u64;
                let mut v = vec![(path.clone(), code)];
                if let Some(p2) = path2 { v.push((p2.clone(), code + 100)); }
                v
            },
            _ => vec![],
        };
        for (k, code) in keys
        {
            per.entry(k).or_insert_with(H64::new).u64(e.tid as u64).u64(code);
        }
    }
    let mut h = H64::new();
    for (k, v) in per.iter()
    {
        h.str(k).u64(v.get());
    }
    h.get()
}

// ---------------------------------------------------------------- violations

#[derive(Clone, Debug)]
pub struct Violation
{
    pub prop : &'static str,
    /* structural signature: violation class + the feature that caused it */
    pub sig : String,
    pub detail : String,
}

fn vio(prop : &'static str, sig : String, detail : String) -> Violation
{
    Violation{ prop, sig, detail }
}

// ---------------------------------------------------------------- per-invocation observation

pub struct Inv
{
    pub op_index : usize,
    pub is_build : bool,
    pub goal : Option<String>,
    pub rules : Vec<SRule>,
    pub before : Disk,
    pub after : Disk,
    pub res : InvResult,
    /* reference model evaluated on the workspace as it was before the invocation */
    pub model : Result<ModelResult, GraphError>,
}

impl Inv
{
    pub fn scope_targets(&self) -> BTreeSet<String>
    {
        let mut s = BTreeSet::new();
        if let Ok(m) = &self.model
        {
            for i in m.scope.iter()
            {
                for t in self.rules[*i].sorted_targets()
                {
                    s.insert(t);
                }
            }
        }
        s
    }

    pub fn rule_of_script(&self, script : &[String]) -> Option<usize>
    {
        for (i, r) in self.rules.iter().enumerate()
        {
            if r.script() == script
            {
                return Some(i);
            }
        }
        None
    }

    /* rule index -> number of times its command started */
    pub fn runs_per_rule(&self) -> BTreeMap<usize, usize>
    {
        let mut m = BTreeMap::new();
        for s in command_log(&self.res.events)
        {
            if let Some(i) = self.rule_of_script(&s)
            {
                *m.entry(i).or_insert(0) += 1;
            }
        }
        m
    }

    /* the error multiset the reference model predicts for a build */
    pub fn predicted_errors(&self) -> Option<Vec<ErrClass>>
    {
        let m = match &self.model { Ok(m) => m, Err(_) => return None };
        let mut v = vec![];
        for l in m.missing_leaves.iter()
        {
            v.push(ErrClass::FileNotFound(l.clone()));
        }
        for (_, o) in m.outcomes.iter()
        {
            match o
            {
                Outcome::Fails(FailKind::CommandFailed) => v.push(ErrClass::CommandErrored),
                Outcome::Fails(FailKind::NotGenerated(t)) => v.push(ErrClass::TargetNotGenerated(t.clone())),
                _ => {},
            }
        }
        v.sort();
        Some(v)
    }

    /* "naming the ... ungenerated target": when a rule's script leaves several declared targets
       ungenerated any of THOSE may be named; a path that the script does generate, or another
       rule's, may not */
    pub fn ungenerated_class(&self, t : &str) -> String
    {
        for (i, r) in self.rules.iter().enumerate()
        {
            if r.targets.iter().any(|x| x == t)
            {
                let generated = r.lines.iter().any(|l| match l { super::scen::Line::Emit{ target, .. } => target == t, _ => false });
                if !generated { return format!("<an ungenerated target of rule {}>", i); }
            }
        }
        t.to_string()
    }

    /* both error lists with ungenerated targets named by rule (see oracle_c04) */
    pub fn errors_as_predicted(&self) -> bool
    {
        let norm = |v : Vec<ErrClass>| -> Vec<ErrClass>
        {
            let mut v : Vec<ErrClass> = v.into_iter().map(|e| match e
            {
                ErrClass::TargetNotGenerated(t) => ErrClass::TargetNotGenerated(self.ungenerated_class(&t)),
                other => other,
            }).collect();
            v.sort();
            v
        };
        match (self.predicted_errors(), self.actual_errors())
        {
            (Some(p), Some(a)) => norm(p) == norm(a),
            _ => false,
        }
    }

    pub fn actual_errors(&self) -> Option<Vec<ErrClass>>
    {
        match &self.res.verdict
        {
            Verdict::Ok => Some(vec![]),
            Verdict::WorkErrors(v) => { let mut v = v.clone(); v.sort(); Some(v) },
            _ => None,
        }
    }
}

// ---------------------------------------------------------------- runner

type Identity = (Vec<String>, Vec<String>, Vec<String>);

pub struct Runner
{
    pub case : Case,
    pub world : World,
    pub rules : Vec<SRule>,
    pub next_op : usize,

    // --- harness-side memory used by the oracles
    /* successful executions: identity -> source contents -> outputs (first record wins) */
    pub record : BTreeMap<Identity, BTreeMap<Vec<Vec<u8>>, Vec<(String, Vec<u8>)>>>,
    /* every path that has ever been a declared target */
    pub ever_targets : BTreeSet<String>,
    /* Some(scope identities, after-disk workspace) after a successful build, until a user op */
    pub fresh : Option<(BTreeSet<usize>, FileMap)>,
    pub cleaned_since_fresh : bool,
    /* rules whose command failed in the previous build (identity), if no user op since */
    pub failed_last : Vec<Identity>,
    pub invocations : usize,
    /* how a rule identity maps to the name of its history file.  Only the C19 engine sets it (that
       naming is the protocol it tests); without it the harness does not know which rule lost its
       memory when a single history file disappears, and forgets everything (sound for C02). */
    pub namer : Option<fn(&Identity) -> String>,
    /* current notation of the rules files (starts as the case says, changed by Op::Restyle) */
    pub bundled : bool,
}

fn file_reader<'a>(disk : &'a Disk) -> impl Fn(&str) -> Option<Vec<u8>> + 'a
{
    move |p : &str| disk.read(p).map(|a| (*a).clone())
}

impl Runner
{
    pub fn new(case : &Case) -> Runner
    {
        super::scen::set_ruler_dir(&case.ruler_dir_name());
        model::set_dir_leaves(case.dir_leaves());
        let world = World::new(case.knobs.clone(), &ruler_dir());
        if let Some(t) = case.marker("clock").and_then(|t| t.parse::<u64>().ok()) { world.set_clock(t); }
        for d in case.dirs.iter()
        {
            if !d.starts_with('@') { world.user_mkdir(d); }
        }
        for (p, c) in case.files.iter()
        {
            world.user_write(p, c);
        }
        let mut r = Runner
        {
            case : case.clone(),
            world : world,
            rules : vec![],
            next_op : 0,
            record : BTreeMap::new(),
            ever_targets : BTreeSet::new(),
            fresh : None,
            cleaned_since_fresh : false,
            failed_last : vec![],
            invocations : 0,
            namer : None,
            bundled : case.bundled(),
        };
        r.set_rules(&case.rules.clone());
        r
    }

    pub fn set_rules(&mut self, rules : &[SRule])
    {
        self.rules = rules.to_vec();
        for r in rules
        {
            for t in r.targets.iter()
            {
                self.ever_targets.insert(t.clone());
            }
        }
        let texts = split_rules(rules, (self.case.rule_files % 10) + if self.bundled { 10 } else { 0 });
        for (path, text) in self.case.rulefile_paths().iter().zip(texts.iter())
        {
            self.world.user_write(path, text.as_bytes());
        }
    }

    /* a single history file was deleted or damaged: the rule it belonged to has lost its memory */
    fn forget_history_file(&mut self, name : Option<String>)
    {
        match (self.namer, name)
        {
            (Some(f), Some(n)) => self.record.retain(|id, _| f(id) != n),
            (Some(_), None) => {},
            // which rule that was is not the harness's business: forget everything
            (None, _) => self.record.clear(),
        }
    }

    fn user_op_happened(&mut self)
    {
        self.fresh = None;
        self.cleaned_since_fresh = false;
        self.failed_last.clear();
    }

    pub fn done(&self) -> bool
    {
        self.next_op >= self.case.ops.len()
    }

    /* Apply the next operation.  Returns the observation when it was a ruler invocation. */
    pub fn step(&mut self) -> Option<Inv>
    {
        let i = self.next_op;
        self.next_op += 1;
        let op = self.case.ops[i].clone();
        match op
        {
            Op::Write{ path, content } =>
            {
                self.world.user_write(&path, &content);
                self.user_op_happened();
                None
            },
            Op::Delete{ path } =>
            {
                self.world.user_delete(&path);
                self.user_op_happened();
                None
            },
            Op::Chmod{ path, exec } =>
            {
                self.world.user_chmod(&path, exec);
                self.user_op_happened();
                None
            },
            Op::SetRules{ rules } =>
            {
                self.set_rules(&rules);
                self.user_op_happened();
                None
            },
            Op::DeleteCacheEntry{ pick } =>
            {
                let entries = cache_contents(&self.world.snapshot().0);
                if entries.len() > 0
                {
                    let (p, _) = &entries[pick as usize % entries.len()];
                    self.world.user_delete(p);
                }
                self.user_op_happened();
                None
            },
            Op::DeleteCacheContent{ content } =>
            {
                let entries = cache_contents(&self.world.snapshot().0);
                for (p, c) in entries
                {
                    if **c == content
                    {
                        self.world.user_delete(&p);
                    }
                }
                self.user_op_happened();
                None
            },
            Op::DeleteRulerDir{ part } =>
            {
                match part
                {
                    DirPart::Whole => { self.world.user_delete_tree(&ruler_dir()); self.record.clear(); },
                    DirPart::Cache => self.world.user_delete_tree(&cache_dir()),
                    DirPart::History => { self.world.user_delete_tree(&history_dir()); self.record.clear(); },
                    DirPart::HistoryFile(pick) =>
                    {
                        let files = self.world.snapshot().0.files_under(&history_dir());
                        let mut gone = None;
                        if files.len() > 0
                        {
                            let path = files[pick as usize % files.len()].0.clone();
                            self.world.user_delete(&path);
                            gone = Some(path[history_dir().len() + 1..].to_string());
                        }
                        self.forget_history_file(gone);
                    },
                    DirPart::Table => self.world.user_delete(&table_path()),
                }
                self.user_op_happened();
                None
            },
            Op::Restyle{ bundled } =>
            {
                self.bundled = bundled;
                let rules = self.rules.clone();
                self.set_rules(&rules);
                // same rules, other notation: not a change of any rule (cf. C13/C14), so the harness
                // keeps its records; it is a user edit of a file, though
                self.user_op_happened();
                None
            },
            Op::PruneDirs =>
            {
                self.world.user_prune_empty_dirs(&ruler_dir());
                self.user_op_happened();
                None
            },
            Op::DirAt{ path } =>
            {
                self.world.user_delete(&path);
                self.world.user_mkdir(&path);
                self.user_op_happened();
                None
            },
            Op::MakeDirs =>
            {
                for d in self.case.dirs.clone().iter() { if !d.starts_with('@') { self.world.user_mkdir(d); } }
                self.user_op_happened();
                None
            },
            Op::Move{ from, to } =>
            {
                self.world.user_rename(&from, &to);
                self.user_op_happened();
                None
            },
            Op::DamageState{ table, pick, keep } =>
            {
                let path = if table { Some(table_path()) } else
                {
                    let files = self.world.snapshot().0.files_under(&history_dir());
                    if files.len() > 0 { Some(files[pick as usize % files.len()].0.clone()) } else { None }
                };
                if let Some(path) = path
                {
                    if let Some(old) = self.world.read(&path)
                    {
                        let new : Vec<u8> = match keep
                        {
                            Some(n) => old[..std::cmp::min(n as usize, old.len().saturating_sub(1))].to_vec(),
                            None => b"\xff\xff\xff\xff\xff\xff\xff\xffgarbage".to_vec(),
                        };
                        self.world.user_put_raw(&path, &new);
                    }
                    let gone = if table { None } else { Some(path[history_dir().len() + 1..].to_string()) };
                    if !table { self.forget_history_file(gone); }
                }
                self.user_op_happened();
                None
            },
            Op::Build{ goal, sched } => Some(self.invocation(i, true, goal, sched)),
            Op::Clean{ goal, sched } => Some(self.invocation(i, false, goal, sched)),
        }
    }

    pub fn invocation(&mut self, op_index : usize, is_build : bool, goal : Option<String>, sched : SchedSpec) -> Inv
    {
        let before = self.world.snapshot().0;
        let model = model::evaluate(&self.rules, goal.as_ref().map(|s| s.as_str()), &file_reader(&before));
        let res = invoke(&self.world, is_build, goal.clone(), self.case.rulefile_paths(), sched);
        let after = self.world.snapshot().0;
        self.invocations += 1;
        Inv
        {
            op_index : op_index,
            is_build : is_build,
            goal : goal,
            rules : self.rules.clone(),
            before : before,
            after : after,
            res : res,
            model : model,
        }
    }

    /* Update the harness-side memory after an invocation has been judged. */
    pub fn absorb(&mut self, inv : &Inv)
    {
        if !inv.is_build
        {
            if self.fresh.is_some()
            {
                self.cleaned_since_fresh = true;
            }
            return;
        }

        // successful executions seen in this build
        let contradicted : BTreeSet<String> = match &inv.res.verdict
        {
            Verdict::WorkErrors(v) => v.iter().flat_map(|e| match e { ErrClass::Contradiction(p) => p.clone(), _ => vec![] }).collect(),
            _ => BTreeSet::new(),
        };
        let mut open : BTreeMap<u16, (usize, Arc<FileMap>)> = BTreeMap::new();
        for e in inv.res.events.iter()
        {
            match &e.kind
            {
                Ev::CmdStart{ script, workspace } =>
                {
                    if let Some(r) = inv.rule_of_script(script)
                    {
                        open.insert(e.tid, (r, workspace.clone()));
                    }
                },
                Ev::CmdEnd{ codes, .. } =>
                {
                    if let Some((r, ws)) = open.remove(&e.tid)
                    {
                        if !codes.iter().all(|c| *c == 0) { continue; }
                        let rule = &inv.rules[r];
                        let mut srcs = vec![];
                        let mut ok = true;
                        for s in rule.sorted_sources()
                        {
                            match model::leaf_bytes(&s, &|p : &str| ws.get(p).map(|(c, _)| (**c).clone())) { Some(c) => srcs.push(c), None => ok = false }
                        }
                        let mut outs = vec![];
                        for t in rule.sorted_targets()
                        {
                            if contradicted.contains(&t) { ok = false; }
                            match inv.after.read(&t) { Some(c) => outs.push((t.clone(), (*c).clone())), None => ok = false }
                        }
                        if ok && inv.res.verdict.returned()
                        {
                            self.record.entry(rule.identity()).or_insert_with(BTreeMap::new)
                                .entry(srcs).or_insert(outs);
                        }
                    }
                },
                _ => {},
            }
        }

        // failing rules of this build (for the "tried again" obligation)
        self.failed_last.clear();
        if let Ok(m) = &inv.model
        {
            for (i, o) in m.outcomes.iter()
            {
                if let Outcome::Fails(_) = o
                {
                    self.failed_last.push(inv.rules[*i].identity());
                }
            }
        }

        match (&inv.res.verdict, &inv.model)
        {
            (Verdict::Ok, Ok(m)) =>
            {
                let scope : BTreeSet<usize> = m.scope.iter().cloned().collect();
                // no user operation since the earlier fresh build: what was up to date stays so
                // (possibly cleaned away, which `cleaned_since_fresh` remembers)
                let (merged, ws) = match &self.fresh
                {
                    Some((old, old_ws)) =>
                    {
                        let merged : BTreeSet<usize> = old.union(&scope).cloned().collect();
                        let mut ws = inv.after.workspace(&ruler_dir());
                        for (k, v) in old_ws.iter()
                        {
                            ws.entry(k.clone()).or_insert(v.clone());
                        }
                        (merged, ws)
                    },
                    None => (scope.clone(), inv.after.workspace(&ruler_dir())),
                };
                if merged.iter().all(|i| scope.contains(i))
                {
                    self.cleaned_since_fresh = false;
                }
                self.fresh = Some((merged, ws));
            },
            _ =>
            {
                self.fresh = None;
                self.cleaned_since_fresh = false;
            },
        }
    }
}

// ---------------------------------------------------------------- oracles

/* C01: after a build that reports success every in-scope target equals the reference output. */
pub fn oracle_c01(inv : &Inv) -> Vec<Violation>
{
    let mut out = vec![];
    if !inv.is_build || inv.res.verdict != Verdict::Ok
    {
        return out;
    }
    let m = match &inv.model { Ok(m) => m, Err(_) => return out };
    for (idx, o) in m.outcomes.iter()
    {
        if let Outcome::Built(ts) = o
        {
            for (t, bytes, _) in ts.iter()
            {
                match inv.after.read(t)
                {
                    Some(actual) if *actual == *bytes => {},
                    Some(actual) =>
                    {
                        let stale = inv.before.read(t).map(|b| *b == *actual).unwrap_or(false);
                        out.push(vio("C01", format!("C01:wrong-content:{}", if stale { "left-stale" } else { "other" }),
                            format!("op {}: build Ok but target {} (rule {}) holds {} instead of {}", inv.op_index, t, idx, show_bytes(&actual), show_bytes(bytes))));
                    },
                    None => out.push(vio("C01", "C01:target-missing".to_string(),
                        format!("op {}: build Ok but target {} (rule {}) does not exist", inv.op_index, t, idx))),
                }
            }
        }
    }
    out
}

/* C04 (verdict part): the reported errors are exactly the failures the reference model predicts;
   cancelled rules run nothing; rules the model marks Built are correct even when the build fails. */
pub fn oracle_c04(inv : &Inv, failed_last : &[Identity]) -> Vec<Violation>
{
    let mut out = vec![];
    if !inv.is_build
    {
        return out;
    }
    let m = match &inv.model { Ok(m) => m, Err(_) => return out };
    let predicted = inv.predicted_errors().unwrap();
    let normalise = |v : Vec<ErrClass>| -> Vec<ErrClass>
    {
        // "naming the ... ungenerated target": when a rule leaves several targets ungenerated any
        // of them may be named; compare by rule
        let mut v : Vec<ErrClass> = v.into_iter().map(|e| match e
        {
            ErrClass::TargetNotGenerated(t) => ErrClass::TargetNotGenerated(inv.ungenerated_class(&t)),
            other => other,
        }).collect();
        v.sort();
        v
    };
    let predicted = normalise(predicted);
    match inv.actual_errors().map(normalise)
    {
        None =>
        {
            // the statement: "the build reports failure with exactly one error per failed rule or
            // missing file".  A build with predicted failures that panics, hangs or returns some
            // other error has not reported them.  (With no predicted failure it is C05's business.)
            if predicted.len() > 0 && !inv.res.verdict.short().starts_with("Error(FailedToRead") && !inv.res.verdict.short().starts_with("Error(HistoryError")
            {
                out.push(vio("C04", format!("C04:failures-not-reported:{}", sig_of_verdict(&inv.res.verdict)),
                    format!("op {}: reference predicts {:?}; the build ended with {}", inv.op_index, predicted, inv.res.verdict.short())));
            }
            return out;
        },
        Some(actual) =>
        {
            if actual != predicted
            {
                let extra : Vec<&ErrClass> = actual.iter().filter(|e| !predicted.contains(e)).collect();
                let missing : Vec<&ErrClass> = predicted.iter().filter(|e| !actual.contains(e)).collect();
                let class = if extra.len() > 0 { format!("unexpected:{}", err_kind(extra[0])) }
                    else if missing.len() > 0 { format!("unreported:{}", err_kind(missing[0])) }
                    else { "multiplicity".to_string() };
                out.push(vio("C04", format!("C04:errors-differ:{}", class),
                    format!("op {}: reported {:?}, reference predicts {:?}", inv.op_index, actual, predicted)));
                return out;
            }
        },
    }

    // the report as the user reads it (Display of the returned error) carries every one of them
    if let Some((whole, each)) = &inv.res.report
    {
        let mut multiplicity : BTreeMap<&String, usize> = BTreeMap::new();
        for m in each.iter() { *multiplicity.entry(m).or_insert(0) += 1; }
        for (m, k) in multiplicity.iter()
        {
            if m.len() > 0 && whole.matches(m.as_str()).count() < *k
            {
                out.push(vio("C04", "C04:report-text-loses-errors".to_string(),
                    format!("op {}: {} failure(s) with the message {:?} were returned, the rendered report shows it {} time(s): {:?}", inv.op_index, k, m, whole.matches(m.as_str()).count(), whole)));
                return out;
            }
        }
    }

    let runs = inv.runs_per_rule();
    for (idx, o) in m.outcomes.iter()
    {
        match o
        {
            Outcome::Cancelled =>
            {
                if runs.get(idx).cloned().unwrap_or(0) > 0
                {
                    out.push(vio("C04", "C04:cancelled-rule-ran".to_string(),
                        format!("op {}: rule {} depends on a failure but its command ran", inv.op_index, idx)));
                }
            },
            Outcome::Built(ts) =>
            {
                for (t, bytes, _) in ts.iter()
                {
                    let ok = inv.after.read(t).map(|a| *a == *bytes).unwrap_or(false);
                    if !ok
                    {
                        out.push(vio("C04", "C04:independent-rule-not-updated".to_string(),
                            format!("op {}: rule {} does not depend on any failure but target {} is {:?}", inv.op_index, idx, t,
                                inv.after.read(t).map(|a| show_bytes(&a)))));
                    }
                }
            },
            Outcome::Fails(_) =>
            {
                // nothing recorded for an earlier failure: it is tried again
                if failed_last.contains(&inv.rules[*idx].identity()) && runs.get(idx).cloned().unwrap_or(0) == 0
                {
                    out.push(vio("C04", "C04:failure-remembered".to_string(),
                        format!("op {}: rule {} failed in the previous build, nothing changed, and it was not tried again", inv.op_index, idx)));
                }
            },
        }
    }
    out
}

fn err_kind(e : &ErrClass) -> String
{
    match e
    {
        ErrClass::FileNotFound(_) => "FileNotFound".to_string(),
        ErrClass::TargetNotGenerated(_) => "TargetNotGenerated".to_string(),
        ErrClass::CommandErrored => "CommandErrored".to_string(),
        ErrClass::Contradiction(_) => "Contradiction".to_string(),
        ErrClass::Other(s) => s.clone(),
    }
}

/* C07: cache is content-addressed — at the quiescent point, and at the moment every entry enters
   or leaves the cache. */
pub fn oracle_c07(inv : &Inv) -> Vec<Violation>
{
    let mut out = vec![];
    audit_cache(&inv.after, &format!("op {}", inv.op_index), &mut out);
    // (Files entering the cache under a name that is not their hash *during* an invocation are not
    //  a violation of the statement, which speaks of quiescent points and — in C11 — of crash
    //  points: an implementation may stage a file under a temporary name.  See probe_c07_staging.)
    // consequence: a recovered target equals the recorded (= reference) output
    if inv.is_build
    {
        if let Ok(m) = &inv.model
        {
            let runs = inv.runs_per_rule();
            for e in inv.res.events.iter()
            {
                if let Ev::Fs{ op : FsOp::Rename, origin : Origin::Ruler, path, path2 : Some(to), ok : true, data : Some(d), .. } = &e.kind
                {
                    if in_cache(path) && !in_ruler_dir(to)
                    {
                        for (idx, o) in m.outcomes.iter()
                        {
                            if runs.get(idx).cloned().unwrap_or(0) > 0 { continue; }
                            if let Outcome::Built(ts) = o
                            {
                                for (t, bytes, _) in ts.iter()
                                {
                                    if t == to && **d != *bytes
                                    {
                                        out.push(vio("C07", "C07:recovered-differs-from-record".to_string(),
                                            format!("op {}: {} recovered from {} holds {} but the recorded output is {}", inv.op_index, to, path, show_bytes(d), show_bytes(bytes))));
                                    }
                                }
                            }
                        }
                    }
                }
            }
        }
    }
    out
}

/* probe: renames into the cache whose destination name is not the hash of the moved bytes */
pub fn probe_c07_staging(inv : &Inv) -> usize
{
    inv.res.events.iter().filter(|e| match &e.kind
    {
        Ev::Fs{ op : FsOp::Rename, origin : Origin::Ruler, path2 : Some(to), ok : true, data : Some(d), .. } =>
            in_cache(to) && to[cache_dir().len() + 1..] != cache_name_of(d),
        _ => false,
    }).count()
}

pub fn audit_cache(disk : &Disk, whence : &str, out : &mut Vec<Violation>)
{
    for (p, c) in cache_contents(disk)
    {
        let name = &p[cache_dir().len() + 1..];
        if name != cache_name_of(&c)
        {
            out.push(vio("C07", "C07:misnamed-entry".to_string(),
                format!("{}: cache entry {} holds {} whose hash name is {}", whence, name, show_bytes(&c), cache_name_of(&c))));
        }
    }
}

/* The set of byte strings standing at target paths or in the cache. */
pub fn conserved_contents(disk : &Disk, target_paths : &BTreeSet<String>) -> BTreeMap<Vec<u8>, String>
{
    let mut s = BTreeMap::new();
    for t in target_paths.iter()
    {
        if let Some(c) = disk.read(t)
        {
            s.entry((*c).clone()).or_insert(format!("target {}", t));
        }
    }
    for (p, c) in cache_contents(disk)
    {
        s.entry((*c).clone()).or_insert(format!("cache {}", &p[cache_dir().len() + 1..]));
    }
    s
}

/* C08: ruler never loses content. */
pub fn oracle_c08(inv : &Inv, ever_targets : &BTreeSet<String>) -> Vec<Violation>
{
    let mut out = vec![];
    let mut paths : BTreeSet<String> = ever_targets.clone();
    for r in inv.rules.iter()
    {
        for t in r.targets.iter() { paths.insert(t.clone()); }
    }
    let before = conserved_contents(&inv.before, &paths);
    let after = conserved_contents(&inv.after, &paths);
    for (c, wher) in before.iter()
    {
        if !after.contains_key(c)
        {
            let class = if wher.starts_with("cache") { "was-in-cache" } else { "was-at-target" };
            out.push(vio("C08", format!("C08:content-lost:{}", class),
                format!("op {}: bytes {} ({}) are nowhere at a target path or in the cache afterwards", inv.op_index, show_bytes(c), wher)));
        }
    }
    out
}

/* probe: ruler-origin renames / truncating creates that replaced different bytes outside its own
   state files.  Not a violation by itself (the replaced bytes may live on elsewhere — that is
   what the conservation check above decides); it tells how close the run came. */
pub fn probe_c08_overwrites(inv : &Inv) -> usize
{
    inv.res.events.iter().filter(|e| match &e.kind
    {
        Ev::Fs{ op : FsOp::Rename, origin : Origin::Ruler, path2 : Some(to), ok : true, data, replaced : Some(old), .. } =>
            (!in_ruler_dir(to) || in_cache(to)) && !data.as_ref().map(|d| **d == **old).unwrap_or(false),
        Ev::Fs{ op : FsOp::CreateFile, origin : Origin::Ruler, path, ok : true, replaced : Some(_), .. } => !in_ruler_dir(path) || in_cache(path),
        _ => false,
    }).count()
}

/* C09: ruler only touches declared targets in scope and its own directory. */
pub fn oracle_c09(inv : &Inv) -> Vec<Violation>
{
    let mut out = vec![];
    let scope_targets = inv.scope_targets();
    for e in inv.res.events.iter()
    {
        if let Ev::Fs{ op, origin : Origin::Ruler, path, path2, .. } = &e.kind
        {
            if is_mutating(*op)
            {
                let mut names = vec![path.clone()];
                if let Some(p2) = path2 { names.push(p2.clone()); }
                for n in names
                {
                    if !in_ruler_dir(&n) && !scope_targets.contains(&n)
                    {
                        out.push(vio("C09", format!("C09:ruler-mutated-foreign-path:{:?}", op),
                            format!("op {}: ruler issued {:?} on {} which is neither an in-scope target nor inside {}", inv.op_index, op, n, &ruler_dir())));
                    }
                }
            }
        }
    }
    let wb = inv.before.workspace(&ruler_dir());
    let wa = inv.after.workspace(&ruler_dir());
    for (p, (c, x)) in wb.iter()
    {
        if scope_targets.contains(p) { continue; }
        match wa.get(p)
        {
            None => out.push(vio("C09", "C09:foreign-file-removed".to_string(),
                format!("op {}: {} (not an in-scope target) disappeared", inv.op_index, p))),
            Some((c2, x2)) =>
            {
                let m1 = inv.before.meta(p).unwrap().0;
                let m2 = inv.after.meta(p).unwrap().0;
                if **c != **c2 || x != x2 || m1 != m2
                {
                    out.push(vio("C09", "C09:foreign-file-changed".to_string(),
                        format!("op {}: {} (not an in-scope target) changed: content {}->{} exec {}->{} mtime {}->{}", inv.op_index, p,
                            show_bytes(c), show_bytes(c2), x, x2, m1, m2)));
                }
            },
        }
    }
    for p in wa.keys()
    {
        if !wb.contains_key(p) && !scope_targets.contains(p)
        {
            out.push(vio("C09", "C09:foreign-file-created".to_string(),
                format!("op {}: {} appeared and is not an in-scope target", inv.op_index, p)));
        }
    }
    out
}

/* C10 (clean half): after a clean no in-scope target exists and each one's bytes are in the cache. */
pub fn oracle_c10_clean(inv : &Inv) -> Vec<Violation>
{
    let mut out = vec![];
    if inv.is_build
    {
        return out;
    }
    if inv.model.is_err()
    {
        return out;
    }
    match &inv.res.verdict
    {
        Verdict::Ok => {},
        other =>
        {
            if other.returned()
            {
                out.push(vio("C10", format!("C10:clean-failed:{}", first_word(&other.short())),
                    format!("op {}: clean on a valid graph returned {}", inv.op_index, other.short())));
            }
            return out;
        },
    }
    let cached : BTreeSet<Vec<u8>> = cache_contents(&inv.after).into_iter().map(|(_, c)| (*c).clone()).collect();
    for t in inv.scope_targets()
    {
        if inv.after.is_file(&t)
        {
            out.push(vio("C10", "C10:target-remains".to_string(),
                format!("op {}: after clean target {} still exists", inv.op_index, t)));
        }
        if let Some(c) = inv.before.read(&t)
        {
            if !cached.contains(&*c)
            {
                out.push(vio("C10", "C10:content-not-cached".to_string(),
                    format!("op {}: target {} held {} before clean; no cache entry holds it now", inv.op_index, t, show_bytes(&c))));
            }
        }
    }
    out
}

/* C10 (build half): a build that follows clean(s) of an up-to-date scope restores everything. */
pub fn oracle_c10_build(inv : &Inv, fresh : &Option<(BTreeSet<usize>, FileMap)>, cleaned_since : bool) -> (Vec<Violation>, bool)
{
    let mut out = vec![];
    if !inv.is_build || !cleaned_since
    {
        return (out, false);
    }
    let (fresh_scope, fresh_ws) = match fresh { Some(f) => f, None => return (out, false) };
    let m = match &inv.model { Ok(m) => m, Err(_) => return (out, false) };
    if !m.scope.iter().all(|i| fresh_scope.contains(i))
    {
        return (out, false);
    }
    if inv.res.verdict != Verdict::Ok
    {
        if inv.res.verdict.returned()
        {
            out.push(vio("C10", format!("C10:build-after-clean-failed:{}", sig_of_verdict(&inv.res.verdict)),
                format!("op {}: the scope was up to date before the clean, but the build returned {}", inv.op_index, inv.res.verdict.short())));
        }
        return (out, true);
    }
    let runs = inv.runs_per_rule();
    let owner = model::target_owner(&inv.rules).unwrap_or(BTreeMap::new());
    for t in inv.scope_targets()
    {
        match (fresh_ws.get(&t), inv.after.read(&t), inv.after.meta(&t))
        {
            (Some((c, x)), Some(c2), Some((_, x2))) =>
            {
                if **c != *c2
                {
                    out.push(vio("C10", "C10:restored-bytes-differ".to_string(),
                        format!("op {}: target {} was {} before the clean and is {} after the build", inv.op_index, t, show_bytes(c), show_bytes(&c2))));
                }
                // a target whose rule had to run again (its content collided with another one's in
                // the cache) gets the permission the command gives it; a restored one keeps its own
                let rebuilt = owner.get(&t).map(|r| runs.get(r).cloned().unwrap_or(0) > 0).unwrap_or(false);
                let expected_exec = if rebuilt { m.expected_target(&t).map(|(_, e)| e).unwrap_or(*x) } else { *x };
                if expected_exec != x2
                {
                    // the cache keeps one inode per content: was there another file with the same
                    // bytes and the other permission that could have replaced this one's entry?
                    let rival = fresh_ws.iter().find(|(p, (c_other, x_other))| **p != t && **c_other == **c && *x_other != *x).map(|(p, _)| p.clone());
                    let class = if rebuilt { "after-rebuild" } else if rival.is_some() { "shared-cache-entry-with-other-permission" } else { "content-unique" };
                    out.push(vio("C10", format!("C10:exec-bit-lost:{}", class),
                        format!("op {}: target {} had exec={} before the clean and exec={} after the build (same bytes with the other permission: {:?})", inv.op_index, t, x, x2, rival)));
                }
            },
            (Some(_), _, _) => out.push(vio("C10", "C10:target-not-restored".to_string(),
                format!("op {}: target {} missing after the build", inv.op_index, t))),
            _ => {},
        }
    }
    // "as long as their contents are pairwise different": over everything that was up to date and
    // may have been cleaned, not only this build's scope (an earlier goal-restricted build may have
    // taken the one cache file two of them shared)
    let mut contents : Vec<Vec<u8>> = vec![];
    for i in fresh_scope.iter()
    {
        for t in inv.rules[*i].sorted_targets()
        {
            if let Some((c, _)) = fresh_ws.get(&t)
            {
                contents.push((**c).clone());
            }
        }
    }
    let n = contents.len();
    contents.sort();
    contents.dedup();
    if contents.len() == n
    {
        let cmds = command_log(&inv.res.events);
        if cmds.len() > 0
        {
            out.push(vio("C10", "C10:command-ran-after-clean".to_string(),
                format!("op {}: all targets that were up to date had pairwise different contents, yet commands ran: {:?}", inv.op_index, cmds)));
        }
    }
    (out, true)
}

pub fn sig_of_verdict(v : &Verdict) -> String
{
    match v
    {
        Verdict::Ok => "Ok".to_string(),
        Verdict::WorkErrors(e) =>
        {
            let mut kinds : Vec<String> = e.iter().map(err_kind).collect();
            kinds.sort();
            kinds.dedup();
            kinds.join("+")
        },
        Verdict::OtherError(e) => e.clone(),
        Verdict::Panic(m) => format!("panic:{}", first_word(m)),
        Verdict::Abort(m) => format!("abort:{}", first_word(m)),
    }
}

/* C20: status lines tell the truth. */
pub fn oracle_c20(inv : &Inv) -> Vec<Violation>
{
    let mut out = vec![];
    if !inv.is_build
    {
        return out;
    }
    let m = match &inv.model { Ok(m) => m, Err(_) => return out };
    if !inv.errors_as_predicted()
    {
        // "each failure is reported once": when the build did return its list of errors, the
        // number of entries must be the number of failures (which errors they are is C04's business)
        if let (Some(p), Some(a)) = (inv.predicted_errors(), inv.actual_errors())
        {
            if p.len() != a.len()
            {
                out.push(vio("C20", format!("C20:failure-count:{}", if a.len() < p.len() { "fewer-reported-than-failed" } else { "more-reported-than-failed" }),
                    format!("op {}: {} rules/leaves fail ({:?}) but {} errors are reported ({:?})", inv.op_index, p.len(), p, a.len(), a)));
            }
        }
        return out;    // something else went wrong; C04/C05/C06 report it
    }
    let runs = inv.runs_per_rule();

    let mut banners : BTreeMap<String, Vec<String>> = BTreeMap::new();
    for p in inv.res.printed.iter()
    {
        if let Printed::Banner(kind, path) = p
        {
            banners.entry(path.clone()).or_insert(vec![]).push(kind.clone());
            if kind == "Outdated" || kind == "Downloaded"
            {
                out.push(vio("C20", format!("C20:impossible-status:{}", kind),
                    format!("op {}: status {} printed for {}", inv.op_index, kind, path)));
            }
        }
    }
    let all_targets : BTreeSet<String> = inv.scope_targets();
    for p in banners.keys()
    {
        if !all_targets.contains(p)
        {
            out.push(vio("C20", "C20:status-for-unknown-path".to_string(),
                format!("op {}: status printed for {} which is not an in-scope target", inv.op_index, p)));
        }
    }

    for (idx, o) in m.outcomes.iter()
    {
        let rule = &inv.rules[*idx];
        match o
        {
            Outcome::Built(_) =>
            {
                let ran = runs.get(idx).cloned().unwrap_or(0) > 0;
                for t in rule.sorted_targets()
                {
                    let b = banners.get(&t).cloned().unwrap_or(vec![]);
                    if b.len() != 1
                    {
                        out.push(vio("C20", format!("C20:status-count:{}", b.len()),
                            format!("op {}: target {} got {} status lines {:?}", inv.op_index, t, b.len(), b)));
                        continue;
                    }
                    let restored = inv.res.events.iter().any(|e| match &e.kind
                    {
                        Ev::Fs{ op : FsOp::Rename, origin : Origin::Ruler, path, path2 : Some(to), ok : true, .. } => in_cache(path) && *to == t,
                        _ => false,
                    });
                    let touched = inv.res.events.iter().any(|e| match &e.kind
                    {
                        Ev::Fs{ op, path, path2, ok : true, .. } if is_mutating(*op) => *path == t || path2.as_ref().map(|p| *p == t).unwrap_or(false),
                        _ => false,
                    });
                    let expected = if ran { "Built" } else if restored { "Recovered" } else if !touched { "Up-to-date" } else { "?" };
                    if expected != "?" && b[0] != expected
                    {
                        out.push(vio("C20", format!("C20:wrong-status:{}-for-{}", b[0], expected),
                            format!("op {}: target {} reported {:?} but what happened is {}", inv.op_index, t, b[0], expected)));
                    }
                    if expected == "?"
                    {
                        out.push(vio("C20", "C20:touched-without-restore-or-build".to_string(),
                            format!("op {}: target {} was modified but neither restored from the cache nor built; reported {:?}", inv.op_index, t, b[0])));
                    }
                }
            },
            _ =>
            {
                for t in rule.sorted_targets()
                {
                    if let Some(b) = banners.get(&t)
                    {
                        out.push(vio("C20", "C20:status-for-failed-rule".to_string(),
                            format!("op {}: rule {} failed or was cancelled, yet {} was reported {:?}", inv.op_index, idx, t, b)));
                    }
                }
            },
        }
    }
    out
}

/* C02: no unnecessary work. */
pub struct C02Info
{
    pub obligations : usize,
    pub obliged_rules : Vec<usize>,
}

pub fn oracle_c02(inv : &Inv, runner : &Runner) -> (Vec<Violation>, C02Info)
{
    let mut out = vec![];
    let mut info = C02Info{ obligations : 0, obliged_rules : vec![] };
    if !inv.is_build
    {
        return (out, info);
    }
    let runs = inv.runs_per_rule();

    // (1) at most once
    for (idx, n) in runs.iter()
    {
        if *n > 1
        {
            out.push(vio("C02", "C02:command-ran-twice".to_string(),
                format!("op {}: the command of rule {} started {} times in one build", inv.op_index, idx, n)));
        }
    }

    let m = match &inv.model { Ok(m) => m, Err(_) => return (out, info) };

    // (2) nothing changed since a successful build that covered this scope
    {
        if let Some((fresh_scope, _)) = &runner.fresh
        {
            if !runner.cleaned_since_fresh && m.scope.iter().all(|i| fresh_scope.contains(i))
            {
                let cmds = command_log(&inv.res.events);
                if cmds.len() > 0
                {
                    out.push(vio("C02", "C02:no-change-rebuild-ran-command".to_string(),
                        format!("op {}: nothing changed since the last successful build, yet commands ran: {:?}", inv.op_index, cmds)));
                }
                for e in inv.res.events.iter()
                {
                    if let Ev::Fs{ op, origin : Origin::Ruler, path, path2, .. } = &e.kind
                    {
                        if is_mutating(*op)
                        {
                            let outside = !in_ruler_dir(path) || path2.as_ref().map(|p| !in_ruler_dir(p)).unwrap_or(false);
                            if outside
                            {
                                out.push(vio("C02", format!("C02:no-change-rebuild-mutated-workspace:{:?}", op),
                                    format!("op {}: nothing changed, yet ruler issued {:?} {} {:?}", inv.op_index, op, path, path2)));
                            }
                        }
                    }
                }
            }
        }
    }

    // (3) must-not-run obligations
    // demand: how many not-already-correct in-scope targets expect each content
    let mut demand : BTreeMap<Vec<u8>, usize> = BTreeMap::new();
    for (_, o) in m.outcomes.iter()
    {
        if let Outcome::Built(ts) = o
        {
            for (t, bytes, _) in ts.iter()
            {
                let correct = inv.before.read(t).map(|c| *c == *bytes).unwrap_or(false);
                if !correct
                {
                    *demand.entry(bytes.clone()).or_insert(0) += 1;
                }
            }
        }
    }
    let cached : BTreeSet<Vec<u8>> = cache_contents(&inv.before).into_iter().map(|(_, c)| (*c).clone()).collect();

    for (idx, o) in m.outcomes.iter()
    {
        if let Outcome::Built(_) = o {} else { continue; }
        let rule = &inv.rules[*idx];
        let srcs = match m.source_contents.get(idx) { Some(s) => s, None => continue };
        let rec = match runner.record.get(&rule.identity()).and_then(|r| r.get(srcs)) { Some(r) => r, None => continue };
        let mut obliged = true;
        for (t, bytes) in rec.iter()
        {
            let holds = inv.before.read(t).map(|c| *c == *bytes).unwrap_or(false);
            if holds { continue; }
            if !cached.contains(bytes) || demand.get(bytes).cloned().unwrap_or(0) != 1
            {
                obliged = false;
            }
        }
        if !obliged { continue; }
        info.obligations += 1;
        info.obliged_rules.push(*idx);
        if runs.get(idx).cloned().unwrap_or(0) > 0
        {
            let on_disk = rec.iter().all(|(t, b)| inv.before.read(t).map(|c| *c == *b).unwrap_or(false));
            out.push(vio("C02", format!("C02:unnecessary-run:{}", if on_disk { "targets-on-disk" } else { "targets-in-cache" }),
                format!("op {}: rule {} ({:?}) was built before from identical sources and every target was {} — yet its command ran",
                    inv.op_index, idx, rule.sorted_targets(), if on_disk { "still in place" } else { "in place or recoverable from the cache" })));
        }
    }
    (out, info)
}

/* C03: at the moment a command starts, each declared source has its final, correct content. */
pub fn oracle_c03(inv : &Inv) -> (Vec<Violation>, usize)
{
    let mut out = vec![];
    let mut checked = 0usize;
    if !inv.is_build
    {
        return (out, checked);
    }
    let m = match &inv.model { Ok(m) => m, Err(_) => return (out, checked) };
    let owner = match model::target_owner(&inv.rules) { Ok(o) => o, Err(_) => return (out, checked) };
    let events = &inv.res.events;

    for (pos, e) in events.iter().enumerate()
    {
        let (script, ws) = match &e.kind { Ev::CmdStart{ script, workspace } => (script, workspace), _ => continue };
        let ridx = match inv.rule_of_script(script) { Some(r) => r, None => continue };
        for s in inv.rules[ridx].sorted_sources()
        {
            let pidx = match owner.get(&s) { Some(p) => *p, None => continue };
            checked += 1;
            // (a) content at command start equals the reference content for this build
            let expected = match m.outcomes.get(&pidx)
            {
                Some(Outcome::Built(ts)) => ts.iter().find(|(t, _, _)| *t == s).map(|(_, b, _)| b.clone()),
                _ => None,
            };
            match (&expected, ws.get(&s))
            {
                (Some(exp), Some((have, _))) if **have == *exp => {},
                (Some(exp), have) =>
                {
                    let class = match have { None => "missing", Some(_) => "wrong-content" };
                    out.push(vio("C03", format!("C03:source-not-final-at-command-start:{}", class),
                        format!("op {}: command of rule {} started while its source {} (made by rule {}) was {:?}, final content is {}",
                            inv.op_index, ridx, s, pidx, have.map(|(c, _)| show_bytes(c)), show_bytes(exp))));
                },
                (None, _) =>
                {
                    out.push(vio("C03", "C03:command-ran-although-producer-failed".to_string(),
                        format!("op {}: command of rule {} started although the rule producing its source {} does not succeed", inv.op_index, ridx, s)));
                },
            }
            // (b) nothing touches the source afterwards
            for later in events[pos + 1..].iter()
            {
                if let Ev::Fs{ op, path, path2, ok : true, .. } = &later.kind
                {
                    if is_mutating(*op) && (*path == s || path2.as_ref().map(|p| *p == s).unwrap_or(false))
                    {
                        out.push(vio("C03", format!("C03:source-modified-after-dependent-started:{:?}", op),
                            format!("op {}: {} was the source of rule {}'s command (event {}) and was {:?}-ed afterwards (event {})",
                                inv.op_index, s, ridx, e.seq, op, later.seq)));
                        break;
                    }
                }
            }
            // (c) somebody other than the dependent looked at the source before
            let seen = events[..pos].iter().any(|earlier| match &earlier.kind
            {
                Ev::Fs{ origin : Origin::Ruler, path, path2, .. } => earlier.tid != e.tid && (*path == s || path2.as_ref().map(|p| *p == s).unwrap_or(false)),
                _ => false,
            });
            if !seen
            {
                out.push(vio("C03", "C03:source-never-examined-by-producer".to_string(),
                    format!("op {}: command of rule {} started before any other thread had touched its source {}", inv.op_index, ridx, s)));
            }
        }
    }
    (out, checked)
}

/* C05: the call returned; no deadlock, panic, step-bound overrun or internal channel error. */
pub fn oracle_c05(inv : &Inv) -> Vec<Violation>
{
    let mut out = vec![];
    match &inv.res.verdict
    {
        Verdict::Panic(m) => out.push(vio("C05", format!("C05:panic:{}", panic_class(m)),
            format!("op {}: {} panicked: {}", inv.op_index, if inv.is_build { "build" } else { "clean" }, m))),
        Verdict::Abort(m) => out.push(vio("C05", format!("C05:{}", if m.starts_with("deadlock") { "deadlock" } else { "step-bound" }),
            format!("op {}: {} did not return: {}", inv.op_index, if inv.is_build { "build" } else { "clean" }, m))),
        Verdict::OtherError(e) if e == "Weird" || e == "SenderError" || e == "ReceiverError" =>
            out.push(vio("C05", format!("C05:internal-error:{}", e),
                format!("op {}: returned internal error {}", inv.op_index, e))),
        _ => {},
    }
    for (tid, m) in inv.res.thread_panics.iter()
    {
        out.push(vio("C05", format!("C05:thread-panic:{}", panic_class(m)),
            format!("op {}: worker thread {} panicked: {}", inv.op_index, tid, m)));
    }
    // A send or receive that finds its channel closed is not by itself a failure of the call (an
    // implementation may tolerate it); it is one when it surfaces — as the panic, the hang or the
    // internal error value handled above.  The engine counts the raw events as a probe.
    out
}

fn panic_class(m : &str) -> String
{
    let head : String = m.chars().take_while(|c| *c != ':' && *c != '@').collect();
    head.trim().replace(' ', "-")
}
