// eng_server.rs — C19: the cache server returns exactly the requested content or a clean 404.
// The ruler directory is produced by a simulated build/clean history; the real `serve()` builds
// its real routes on SimSystem; hook H3 hands the composed filter to server_sim::drive_server,
// which injects the request sequence in memory (warp::test) instead of listening on TCP.

use super::*;
use crate::rule::Rule;
use crate::ticket::TicketFactory;
use super::super::hist::{cache_contents, cache_dir};
use super::super::scen::ruler_dir;
use super::super::server_sim;
use super::super::util::cache_name_of;

const ALPHABET : &[u8; 62] = b"0123456789abcdefghijklmnopqrstuvwxyzABCDEFGHIJKLMNOPQRSTUVWXYZ";

fn random_name(rng : &mut Rng) -> String
{
    // least significant digit first; keep the most significant digit small so the value fits 256 bits
    let mut s : Vec<u8> = (0..42).map(|_| ALPHABET[rng.below(62) as usize]).collect();
    s.push(ALPHABET[rng.below(1) as usize]);
    String::from_utf8(s).unwrap()
}

fn hostile_paths(rng : &mut Rng, some_valid : &str) -> Vec<(String, String, &'static str)>
{
    let mut v : Vec<(String, String, &'static str)> = vec![];
    let get = |p : String, class : &'static str| ("GET".to_string(), p, class);
    v.push(get(format!("/files/{}", &some_valid[..42]), "short-name"));
    v.push(get(format!("/files/{}0", some_valid), "long-name"));
    v.push(get(format!("/files/{}", "Z".repeat(43)), "overflow"));
    v.push(get(format!("/files/{}-", &some_valid[..42]), "foreign-character"));
    v.push(get(format!("/files/{}%2F", &some_valid[..42]), "encoded-slash"));
    v.push(get("/files/..%2F..%2Fbuild.rules".to_string(), "encoded-traversal"));
    v.push(get("/files/%2e%2e%2f%2e%2e%2fREADME".to_string(), "encoded-traversal"));
    v.push(get("/files/../../README".to_string(), "traversal"));
    v.push(get("/files/".to_string(), "empty-segment"));
    v.push(get("/files".to_string(), "no-segment"));
    v.push(get(format!("/files/{}/extra", some_valid), "extra-segment"));
    v.push(get(format!("/files//{}", some_valid), "empty-segment"));
    v.push(get("/files/current_file_states".to_string(), "state-file-name"));
    v.push(get(format!("/cache/{}", some_valid), "other-root"));
    v.push(get(format!("/{}/cache/{}", &ruler_dir(), some_valid), "other-root"));
    v.push(get("/".to_string(), "root"));
    v.push(get(format!("/rules/{}", some_valid), "rules-one-segment"));
    v.push(get(format!("/rules/{}/{}", some_valid, &some_valid[..42]), "rules-short-source"));
    v.push(get(format!("/rules/{}/{}", "Z".repeat(43), some_valid), "rules-overflow"));
    v.push(get(format!("/rules/..%2Fcache/{}", some_valid), "rules-traversal"));
    v.push(get(format!("/rules/{}/{}/x", some_valid, some_valid), "rules-extra-segment"));
    v.push(("POST".to_string(), format!("/files/{}", some_valid), "other-method"));
    v.push(("DELETE".to_string(), format!("/files/{}", some_valid), "other-method"));
    v.push(("PUT".to_string(), format!("/rules/{}/{}", some_valid, some_valid), "other-method"));
    // non-ASCII can only travel percent-encoded
    v.push(get(format!("/files/{}%C3%A9", &some_valid[..41]), "non-ascii"));
    v.push(get(format!("/files/{}%00", &some_valid[..42]), "encoded-nul"));
    let n = rng.range(0, 4);
    for _ in 0..n
    {
        let len = rng.range(0, 60);
        let s : String = (0..len).map(|_| *rng.pick(&['a', 'Z', '0', '.', '-', '_', '~', '!', '$', '\'', '(', ')', '*', '+', ',', ';', '=', ':', '@'])).collect();
        v.push(get(format!("/files/{}", s), "token-soup"));
    }
    v
}

pub struct Expect
{
    pub status_ok : Option<bool>,          // Some(true) = 200, Some(false) = 404, None = only "not a leak"
    pub body : Option<Vec<u8>>,
    pub class : String,
}

/* reference model of a ruler directory: independent listing of the simulated disk + harness record */
pub struct RefModel
{
    pub cache : BTreeMap<String, Vec<u8>>,
    pub rule_pairs : BTreeMap<(String, String), Vec<u8>>,
    pub secrets : Vec<(String, Vec<u8>)>,
}

fn ref_model(runner : &Runner) -> RefModel
{
    let disk = runner.world.snapshot().0;
    let cache : BTreeMap<String, Vec<u8>> = cache_contents(&disk).into_iter()
        .map(|(p, c)| (p[cache_dir().len() + 1..].to_string(), (*c).clone())).collect();
    // recorded (rule, sources) pairs, named the way ruler's own client names them
    let mut rule_pairs : BTreeMap<(String, String), Vec<u8>> = BTreeMap::new();
    for (identity, by_sources) in runner.record.iter()
    {
        // (a directory source is named by ruler's own hash of its listing, which the harness's
        //  record does not hold: such pairs are not requested by name)
        if identity.1.iter().any(|s| super::super::model::dir_leaf_members(s).is_some()) { continue; }
        let rule_ticket = Rule::new(identity.0.clone(), identity.1.clone(), identity.2.clone()).get_ticket().human_readable();
        for (srcs, outs) in by_sources.iter()
        {
            let mut f = TicketFactory::new();
            for c in srcs.iter()
            {
                let mut ff = TicketFactory::new();
                ff.input_bytes(c);
                f.input_ticket(ff.result());
            }
            let body = outs.iter().map(|(_, b)| cache_name_of(b)).collect::<Vec<String>>().join("\n");
            rule_pairs.insert((rule_ticket.clone(), f.result().human_readable()), body.into_bytes());
        }
    }
    // everything that must never be served: files outside cache/ whose bytes are not also cached
    let cached_bytes : BTreeSet<Vec<u8>> = cache.values().cloned().collect();
    let secrets : Vec<(String, Vec<u8>)> = disk.image().files.into_iter()
        .filter(|(p, c, _, _)| !p.starts_with(&format!("{}/", cache_dir())) && c.len() > 0 && !cached_bytes.contains(c))
        .map(|(p, c, _, _)| (p, c)).collect();
    RefModel{ cache, rule_pairs, secrets }
}

fn history_file_name(id : &(Vec<String>, Vec<String>, Vec<String>)) -> String
{
    Rule::new(id.0.clone(), id.1.clone(), id.2.clone()).get_ticket().human_readable()
}

fn brief(b : &[u8]) -> String
{
    if b.len() <= 400 { super::super::util::show_bytes(b) } else { format!("<{} bytes, hash {}>", b.len(), cache_name_of(b)) }
}

/* A very large cache entry (an artefact of a real project), stored under its true name. */
fn plant_big(runner : &Runner, size : usize)
{
    let mut content = Vec::with_capacity(size);
    let mut x : u32 = 0x9E37_79B9;
    while content.len() + 4 <= size { x = x.wrapping_mul(1_664_525).wrapping_add(1_013_904_223); content.extend_from_slice(&x.to_le_bytes()); }
    while content.len() < size { content.push(b'#'); }
    if runner.world.snapshot().0.is_dir(&cache_dir())
    {
        runner.world.user_write(&format!("{}/{}", cache_dir(), cache_name_of(&content)), &content);
    }
}

fn run_ops(runner : &mut Runner, upto : usize, mut stats : Option<&mut Stats>)
{
    while runner.next_op < upto && !runner.done()
    {
        if let Some(inv) = runner.step()
        {
            if let Some(s) = stats.as_deref_mut() { s.inc("c19.history_invocations"); }
            runner.absorb(&inv);
        }
    }
}

/* Run the history, serve its ruler directory, and let the last `k` operations of the history happen
   while the server is up (at the "OP" pseudo-requests).  `fixed_requests`: replay. */
pub fn run_case(case : &Case, seed : u64, fixed_requests : Option<&Vec<(String, String, String)>>, mut stats : Option<&mut Stats>) -> (Vec<Violation>, Vec<(String, String, String)>)
{
    let mut out = vec![];
    let mut rng = Rng::derive(seed, 9);
    let k = match fixed_requests
    {
        Some(r) => std::cmp::min(r.iter().filter(|(m, _, _)| m == "OP").count(), case.ops.len()),
        None => std::cmp::min(rng.below(3) as usize, case.ops.len().saturating_sub(1)),
    };
    let pre = case.ops.len() - k;
    // one directory in a few hundred holds an entry of 16 MiB + 1 or of 129 MiB + 7 ("BIG" pseudo-request)
    let big : Option<usize> = match fixed_requests
    {
        Some(r) => r.iter().find(|(m, _, _)| m == "BIG").and_then(|(_, p, _)| p.parse::<usize>().ok()),
        None => if rng.chance(1, 300) { Some(*rng.pick(&[(1usize << 24) + 1, (1 << 27) + (1 << 20) + 7])) } else { None },
    };

    // dry run: the reference model of the directory in every phase (the simulation is deterministic,
    // so the real run below goes through exactly the same states)
    let mut refs : Vec<RefModel> = vec![];
    {
        let mut dry = Runner::new(case);
        dry.namer = Some(history_file_name);
        run_ops(&mut dry, pre, None);
        if let Some(size) = big { plant_big(&dry, size); }
        refs.push(ref_model(&dry));
        for j in 0..k
        {
            run_ops(&mut dry, pre + j + 1, None);
            refs.push(ref_model(&dry));
        }
    }

    // request sequence
    let mut reqs : Vec<(String, String)> = vec![];
    let mut classes : Vec<String> = vec![];
    match fixed_requests
    {
        Some(r) => { reqs = r.iter().map(|(m, p, _)| (m.clone(), p.clone())).collect(); classes = r.iter().map(|(_, _, c)| c.clone()).collect(); },
        None =>
        {
            // names from every phase: what is present later is requested early (404 then) and vice versa
            let mut cache_names : BTreeSet<String> = BTreeSet::new();
            let mut pair_names : BTreeSet<(String, String)> = BTreeSet::new();
            let mut secret_hashes : BTreeSet<String> = BTreeSet::new();
            for r in refs.iter()
            {
                cache_names.extend(r.cache.keys().cloned());
                pair_names.extend(r.rule_pairs.keys().cloned());
                // (state files are excluded from the *requests*: their byte order differs between
                //  processes; they stay in the never-serve check below)
                for (_, c) in r.secrets.iter().filter(|(p, _)| !p.starts_with(&format!("{}/", &ruler_dir()))).take(12) { secret_hashes.insert(cache_name_of(c)); }
            }
            let some_valid = cache_names.iter().next().cloned().unwrap_or(random_name(&mut rng));
            let mut phase_reqs : Vec<(String, String, String)> = vec![];
            for name in cache_names.iter() { phase_reqs.push(("GET".to_string(), format!("/files/{}", name), "cached-hash".to_string())); }
            for (r, s) in pair_names.iter() { phase_reqs.push(("GET".to_string(), format!("/rules/{}/{}", r, s), "recorded-pair".to_string())); }
            for h in secret_hashes.iter() { phase_reqs.push(("GET".to_string(), format!("/files/{}", h), "hash-of-uncached-file".to_string())); }
            // 43 valid characters whose value is a present hash + 2^256: too large, must be rejected
            for name in cache_names.iter()
            {
                if let Some(alias) = super::super::util::alias_beyond_256_bits(name) { phase_reqs.push(("GET".to_string(), format!("/files/{}", alias), "present-hash-plus-2^256".to_string())); }
            }
            for (r, s) in pair_names.iter()
            {
                if let Some(alias) = super::super::util::alias_beyond_256_bits(r) { phase_reqs.push(("GET".to_string(), format!("/rules/{}/{}", alias, s), "present-rule-plus-2^256".to_string())); }
                if let Some(alias) = super::super::util::alias_beyond_256_bits(s) { phase_reqs.push(("GET".to_string(), format!("/rules/{}/{}", r, alias), "present-sources-plus-2^256".to_string())); }
            }
            let hostile = hostile_paths(&mut rng, &some_valid);
            if let Some(size) = big { reqs.push(("BIG".to_string(), format!("{}", size))); classes.push("op".to_string()); }
            for phase in 0..=k
            {
                if phase > 0 { reqs.push(("OP".to_string(), format!("{}", pre + phase - 1))); classes.push("op".to_string()); }
                let mut valid = phase_reqs.clone();
                for _ in 0..4 { valid.push(("GET".to_string(), format!("/files/{}", random_name(&mut rng)), "absent-name".to_string())); }
                for (r, _) in pair_names.iter().take(4) { valid.push(("GET".to_string(), format!("/rules/{}/{}", r, random_name(&mut rng)), "absent-sources".to_string())); }
                for _ in 0..2 { valid.push(("GET".to_string(), format!("/rules/{}/{}", random_name(&mut rng), random_name(&mut rng)), "absent-rule".to_string())); }
                // the same names again with request headers a cache, proxy or browser would add, with a
                // query string, and as HEAD: absent stays 404 whatever the header section says
                let base = valid.clone();
                let nvar = std::cmp::min(base.len(), 10);
                for _ in 0..nvar
                {
                    let (_, p, c) = rng.pick(&base).clone();
                    let last = p.rsplit('/').next().unwrap_or("").to_string();
                    let (m, tag) = match rng.below(12)
                    {
                        0 => (format!("GET|If-None-Match: \"{}\"", last), "if-none-match"),
                        1 => ("GET|If-None-Match: *".to_string(), "if-none-match"),
                        2 => ("GET|If-Match: *".to_string(), "if-match"),
                        3 => ("GET|If-Modified-Since: Thu, 01 Jan 2099 00:00:00 GMT".to_string(), "if-modified-since"),
                        4 => ("GET|Range: bytes=0-0".to_string(), "range"),
                        5 => (format!("GET|If-Range: \"{}\"|Range: bytes=1-", last), "range"),
                        6 => ("GET|Accept-Encoding: gzip, br|Accept: text/plain;q=0.1".to_string(), "accept"),
                        7 => ("GET|Cache-Control: only-if-cached, max-stale=99999".to_string(), "cache-control"),
                        8 => ("GET|Host: example.org|X-Forwarded-For: 10.0.0.1|Connection: keep-alive".to_string(), "proxy"),
                        9 => ("HEAD".to_string(), "head"),
                        _ => ("GET".to_string(), "query"),
                    };
                    let p = if tag == "query" { format!("{}?{}", p, rng.pick(&["x=1", "download", "name=../../etc/passwd", ""])) } else { p };
                    valid.push((m, p, format!("{}+{}", c, tag)));
                }
                rng.shuffle(&mut valid);
                // interleave: after every hostile request a valid one must still be answered
                let share : Vec<&(String, String, &'static str)> = hostile.iter().enumerate().filter(|(i, _)| i % (k + 1) == phase).map(|(_, h)| h).collect();
                let mut hi = 0;
                for (i, (m, p, c)) in valid.iter().enumerate()
                {
                    reqs.push((m.clone(), p.clone())); classes.push(c.clone());
                    if i % 2 == 0 && hi < share.len()
                    {
                        reqs.push((share[hi].0.clone(), share[hi].1.clone())); classes.push(share[hi].2.to_string());
                        hi += 1;
                    }
                }
                while hi < share.len()
                {
                    reqs.push((share[hi].0.clone(), share[hi].1.clone())); classes.push(share[hi].2.to_string());
                    hi += 1;
                    if let Some((m, p, c)) = valid.get(hi % std::cmp::max(1, valid.len()))
                    {
                        reqs.push((m.clone(), p.clone())); classes.push(c.clone());
                    }
                }
            }
            // only request-targets that can travel over HTTP at all
            let mut keep_r = vec![];
            let mut keep_c = vec![];
            for ((m, p), c) in reqs.iter().zip(classes.iter())
            {
                if m == "OP" || m == "BIG" || p.parse::<warp::http::Uri>().is_ok() { keep_r.push((m.clone(), p.clone())); keep_c.push(c.clone()); }
            }
            reqs = keep_r;
            classes = keep_c;
        },
    }

    // the real run: history up to `pre`, then serve; the remaining operations run at the OP markers
    let mut runner = Runner::new(case);
    runner.namer = Some(history_file_name);
    run_ops(&mut runner, pre, stats.as_deref_mut());
    if let Some(size) = big { plant_big(&runner, size); if let Some(s) = stats.as_deref_mut() { s.inc("c19.directories_with_a_very_large_entry"); } }
    let sys = runner.world.system();
    let hook : Box<dyn FnMut()> = Box::new(move ||
    {
        let next = runner.next_op + 1;
        run_ops(&mut runner, next, None);
    });
    server_sim::set_plan(reqs.clone(), Some(hook));
    let served = std::panic::catch_unwind(std::panic::AssertUnwindSafe(|| crate::server::serve(sys, &ruler_dir(), 0)));
    let plan = server_sim::take_plan();
    let responses = match (served, plan)
    {
        (Ok(Ok(())), Some(p)) if p.responses.len() == reqs.len() => p.responses,
        (Err(_), _) =>
        {
            out.push(Violation{ prop : "C19", sig : "C19:server-panicked".to_string(), detail : "serve() panicked while answering the request sequence".to_string() });
            return (out, with_classes(&reqs, &classes));
        },
        _ =>
        {
            out.push(Violation{ prop : "C19", sig : "C19:server-stopped".to_string(), detail : "serve() returned without answering every request".to_string() });
            return (out, with_classes(&reqs, &classes));
        },
    };

    let mut phase = 0usize;
    for (i, ((method, path), (status, body))) in reqs.iter().zip(responses.iter()).enumerate()
    {
        if method == "BIG" { continue; }
        if method == "OP"
        {
            phase = std::cmp::min(phase + 1, refs.len() - 1);
            if let Some(s) = stats.as_deref_mut() { s.inc("c19.operations_while_serving"); }
            continue;
        }
        let r = &refs[phase];
        let (cache, rule_pairs, secrets) = (&r.cache, &r.rule_pairs, &r.secrets);
        let dir_class = format!("{}{}{}", if cache.len() > 0 { "cache+" } else { "nocache+" }, if rule_pairs.len() > 0 { "pairs" } else { "nopairs" }, if phase > 0 { "+changed-while-serving" } else { "" });
        let class = &classes[i];
        if let Some(s) = stats.as_deref_mut()
        {
            s.inc("evaluations");
            s.inc(&format!("c19.requests.{}", class));
            s.digest_str(&format!("{} {} {}", method, path, status));
            if cache.len() > 0 && rule_pairs.len() > 0
            {
                s.distinct.insert(H64::new().str(class).str(&dir_class).u64(*status as u64).get());
            }
        }
        // expected answer from the reference model, from the path alone
        let (verb, headers) = match method.split_once('|') { Some((v, h)) => (v, h), None => (method.as_str(), "") };
        let path = &path.split('?').next().unwrap_or("").to_string();
        let expected : Option<(u16, Option<Vec<u8>>)> =
            if verb != "GET" && verb != "HEAD" { None }
            else if let Some(name) = path.strip_prefix("/files/")
            {
                match cache.get(name) { Some(c) => Some((200, Some(c.clone()))), None => Some((404, None)) }
            }
            else if let Some(rest) = path.strip_prefix("/rules/")
            {
                let parts : Vec<&str> = rest.split('/').collect();
                if parts.len() == 2
                {
                    match rule_pairs.get(&(parts[0].to_string(), parts[1].to_string())) { Some(b) => Some((200, Some(b.clone()))), None => Some((404, None)) }
                }
                else { Some((404, None)) }
            }
            else { Some((404, None)) };
        let when = if phase > 0 { format!(" (after {} operation(s) ran while the server was up)", phase) } else { "".to_string() };

        match &expected
        {
            Some((200, Some(_))) if verb == "HEAD" => {},   // ruler may refuse HEAD (405) or answer it; only "absent => no success" is demanded
            // conditional / range requests for something that is there: 200 with the exact bytes, or the
            // answer HTTP defines for that header (nothing of the sort exists today; the property does not forbid it)
            Some((200, Some(b))) if *status == 304 && body.is_empty() && (headers.contains("If-None-Match") || headers.contains("If-Modified-Since")) => { let _ = b; },
            Some((200, Some(b))) if *status == 206 && headers.contains("Range") && body.len() <= b.len() && (body.is_empty() || b.windows(body.len()).any(|w| w == &body[..])) => {},
            Some((200, Some(b))) =>
            {
                if *status != 200
                {
                    out.push(Violation{ prop : "C19", sig : format!("C19:present-but-{}:{}", status, if path.starts_with("/files/") { "file" } else { "rule" }),
                        detail : format!("request {} {} {}{}: expected 200 with {} bytes, got status {}", i, method, path, when, b.len(), status) });
                }
                else if body != b
                {
                    out.push(Violation{ prop : "C19", sig : format!("C19:wrong-body:{}", if path.starts_with("/files/") { "file" } else { "rule" }),
                        detail : format!("request {} {} {}{}: expected body {}, got {}", i, method, path, when, brief(b), brief(body)) });
                }
            },
            Some((404, _)) =>
            {
                if *status != 404 && !(verb == "HEAD" && *status == 405)
                {
                    out.push(Violation{ prop : "C19", sig : format!("C19:absent-or-malformed-but-{}:{}", status, class),
                        detail : format!("request {} {} {}{}: expected 404, got status {} with body {}", i, method, path, when, status, super::super::util::show_bytes(body)) });
                }
            },
            _ => {},
        }
        // nothing outside cache/ and history/ is ever served
        if *status == 200
        {
            for (p, c) in secrets.iter()
            {
                if c == body && !p.starts_with(&format!("{}/history/", &ruler_dir()))
                {
                    out.push(Violation{ prop : "C19", sig : "C19:served-file-outside-cache".to_string(),
                        detail : format!("request {} {} {}{}: the response body is the content of {}", i, method, path, when, p) });
                }
            }
        }
    }
    if let Some(s) = stats.as_deref_mut()
    {
        s.end_run();
        let last = refs.last().unwrap();
        s.add("c19.cache_entries_served", last.cache.len() as u64);
        s.add("c19.recorded_pairs_served", last.rule_pairs.len() as u64);
        s.inc(&format!("c19.phases.{}", k + 1));
    }
    (out, with_classes(&reqs, &classes))
}

fn with_classes(reqs : &Vec<(String, String)>, classes : &Vec<String>) -> Vec<(String, String, String)>
{
    reqs.iter().zip(classes.iter()).map(|((m, p), c)| (m.clone(), p.clone(), c.clone())).collect()
}

pub fn replay(case : &Case, requests : &Vec<(String, String, String)>) -> Vec<(String, String)>
{
    run_case(case, 0, Some(requests), None).0.into_iter().map(|v| (v.sig, v.detail)).collect()
}

pub fn run_one(cfg : &Config, seed : u64, k : u64, stats : &mut Stats) -> Vec<Found>
{
    let mut rng = Rng::derive(seed, 6);
    let mut g = GenCfg::base(cfg.thorough);
    g.max_rules = rng.range(1, if cfg.thorough { 10 } else { 6 });
    g.max_ops = if cfg.thorough { 10 } else { 6 };
    g.min_ops = 2;
    g.failing = rng.chance(1, 4);
    g.cleans = *rng.pick(&[10u64, 20, 30]);
    g.shared_pool = rng.chance(1, 2);
    g.policy_sched = Some(Strategy::Serial);
    let case = Gen::new(seed, g).case();
    if k < 3 * cfg.workers { stats.sample(case.to_j().set("then", J::s("serve .ruler and replay the generated request sequence (cached hashes, recorded pairs, absent and hostile names)"))); }

    let (vs, reqs) = run_case(&case, seed, None, Some(stats));
    let mut found = vec![];
    let mut seen = BTreeSet::new();
    for v in vs
    {
        if !seen.insert(v.sig.clone()) || !stats.reported.insert(v.sig.clone()) { continue; }
        // minimise the request list (the history is kept: it produced the directory)
        let mut best = reqs.clone();
        let mut i = best.len();
        let mut budget = 200;
        while i > 0 && budget > 0
        {
            i -= 1;
            budget -= 1;
            if best[i].0 == "OP" || best[i].0 == "BIG" { continue; }
            let mut cand = best.clone();
            cand.remove(i);
            if run_case(&case, seed, Some(&cand), None).0.iter().any(|x| x.sig == v.sig) { best = cand; }
        }
        let detail = run_case(&case, seed, Some(&best), None).0.into_iter().find(|x| x.sig == v.sig).map(|x| x.detail).unwrap_or(v.detail.clone());
        found.push(Found
        {
            prop : "C19".to_string(), sig : v.sig.clone(), detail : detail,
            explain : case.to_j().set("requests", J::Arr(best.iter().map(|(m, p, c)| J::Str(format!("{} {}   ({})", m, p, c))).collect())),
            replay : Replay::Server{ case : case.clone(), requests : best },
        });
    }
    found
}
