// server_sim.rs — in-memory driver for the warp filter of `ruler serve` (hook H3).

use std::cell::RefCell;

thread_local!
{
    static SERVER_PLAN : RefCell<Option<ServerPlan>> = RefCell::new(None);
}

pub struct ServerPlan
{
    pub requests : Vec<(String, String)>,            // (method, path); method "OP" = let the harness change the directory now
    pub responses : Vec<(u16, Vec<u8>)>,
    /* called for every "OP" pseudo-request, while the server instance stays up */
    pub hook : Option<Box<dyn FnMut()>>,
}

pub fn server_in_memory() -> bool
{
    SERVER_PLAN.with(|p| p.borrow().is_some())
}

pub fn set_plan(requests : Vec<(String, String)>, hook : Option<Box<dyn FnMut()>>)
{
    SERVER_PLAN.with(|p| *p.borrow_mut() = Some(ServerPlan{ requests : requests, responses : vec![], hook : hook }));
}

pub fn take_plan() -> Option<ServerPlan>
{
    SERVER_PLAN.with(|p| p.borrow_mut().take())
}

pub async fn drive_server<F>(filter : F)
where
    F : warp::Filter<Error = warp::Rejection> + Clone + Send + Sync + 'static,
    F::Extract : warp::Reply + Send,
{
    let requests : Vec<(String, String)> = SERVER_PLAN.with(|p| p.borrow().as_ref().map(|pl| pl.requests.clone()).unwrap_or(vec![]));
    let mut hook = SERVER_PLAN.with(|p| p.borrow_mut().as_mut().and_then(|pl| pl.hook.take()));
    let mut responses = vec![];
    for (method, path) in requests
    {
        if method == "BIG" { responses.push((0, vec![])); continue; }
        if method == "OP"
        {
            // a build or clean runs against the same ruler directory while this server stays up
            if let Some(h) = hook.as_mut() { h(); }
            responses.push((0, vec![]));
            continue;
        }
        // "GET|Header: value|Header: value": request headers ride behind the method
        let mut parts = method.split('|');
        let mut req = warp::test::request().method(parts.next().unwrap_or("GET")).path(&path);
        for h in parts
        {
            if let Some((k, v)) = h.split_once(": ") { req = req.header(k, v); }
        }
        let resp = req.reply(&filter).await;
        responses.push((resp.status().as_u16(), resp.body().to_vec()));
    }
    SERVER_PLAN.with(|p| if let Some(pl) = p.borrow_mut().as_mut() { pl.responses = responses; });
}
