use super::*;
pub fn run_one(_cfg : &Config, _seed : u64, _k : u64, _stats : &mut Stats) -> Vec<Found> { vec![] }
pub fn replay(_case : &Case) -> Vec<(String, String)> { vec![] }
