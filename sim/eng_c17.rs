// eng_c17.rs — C17: a rule that is not reproducible is reported, never silently accepted.
// Injected fault: an undeclared input of a command changes between builds.

use super::*;
use super::super::hist::{ErrClass, oracle_c01};
use super::super::model::{self, Outcome};
use super::super::scen::DirPart;
use std::sync::Arc;
use super::super::rt::FileMap;

/* rules that read a file which is neither a declared source nor one of their own targets */
fn hidden_rules(rules : &[SRule]) -> BTreeSet<usize>
{
    let mut s = BTreeSet::new();
    for (i, r) in rules.iter().enumerate()
    {
        for l in r.lines.iter()
        {
            if let Line::Emit{ inputs, .. } = l
            {
                if inputs.iter().any(|x| !r.sources.contains(x) && !r.targets.contains(x))
                {
                    s.insert(i);
                }
            }
        }
    }
    s
}

/* rules that have a rule of `roots` among their transitive prerequisites (roots excluded) */
fn downstream_of(rules : &[SRule], roots : &BTreeSet<usize>) -> BTreeSet<usize>
{
    let owner = model::target_owner(rules).unwrap_or(BTreeMap::new());
    let mut down : BTreeSet<usize> = BTreeSet::new();
    loop
    {
        let mut changed = false;
        for (i, r) in rules.iter().enumerate()
        {
            if down.contains(&i) { continue; }
            let hit = r.sources.iter().any(|s| owner.get(s).map(|p| roots.contains(p) || down.contains(p)).unwrap_or(false));
            if hit { down.insert(i); changed = true; }
        }
        if !changed { break; }
    }
    down
}

pub fn check_inv(inv : &Inv, runner : &Runner, is_last : bool, mut stats : Option<&mut Stats>) -> Vec<Violation>
{
    let mut out = vec![];
    if !inv.is_build { return out; }
    let actual = match inv.actual_errors() { Some(a) => a, None => return out };
    let hidden = hidden_rules(&inv.rules);

    // (a) which contradictions must be reported: rules whose command ran on sources for which the
    //     harness holds a record, and whose outputs now differ from that record
    let mut expected : Vec<Vec<String>> = vec![];
    let mut contradicted_rules : BTreeSet<usize> = BTreeSet::new();
    let mut open : BTreeMap<u16, (usize, Arc<FileMap>)> = BTreeMap::new();
    for e in inv.res.events.iter()
    {
        match &e.kind
        {
            Ev::CmdStart{ script, workspace } => { if let Some(r) = inv.rule_of_script(script) { open.insert(e.tid, (r, workspace.clone())); } },
            Ev::CmdEnd{ codes, .. } =>
            {
                if let Some((r, ws)) = open.remove(&e.tid)
                {
                    if !codes.iter().all(|c| *c == 0) { continue; }
                    let rule = &inv.rules[r];
                    let srcs : Option<Vec<Vec<u8>>> = rule.sorted_sources().iter().map(|s| model::leaf_bytes(s, &|p : &str| ws.get(p).map(|(c, _)| (**c).clone()))).collect();
                    let srcs = match srcs { Some(s) => s, None => continue };
                    if let Some(rec) = runner.record.get(&rule.identity()).and_then(|m| m.get(&srcs))
                    {
                        let differing : Vec<String> = rec.iter().filter(|(t, b)| inv.after.read(t).map(|a| *a != *b).unwrap_or(true)).map(|(t, _)| t.clone()).collect();
                        if let Some(s) = stats.as_deref_mut()
                        {
                            s.inc("c17.forced_reexecutions_with_record");
                            s.distinct.insert(H64::new().u64(shape_hash(&inv.rules)).u64(r as u64).u64(rule.targets.len() as u64).u64(differing.len() as u64)
                                .u64(rule.sorted_targets().iter().enumerate().map(|(i, t)| if differing.contains(t) { 1u64 << (i % 64) } else { 0 }).sum())
                                .u64(inv.before.is_file(&rule.sorted_targets()[0]) as u64).get());
                        }
                        if differing.len() > 0
                        {
                            if let Some(s) = stats.as_deref_mut() { s.inc("fault.undeclared_input_changed_output"); }
                            expected.push(differing);
                            contradicted_rules.insert(r);
                        }
                    }
                }
            },
            _ => {},
        }
    }

    let reported : Vec<Vec<String>> = actual.iter().filter_map(|e| match e { ErrClass::Contradiction(p) => Some(p.clone()), _ => None }).collect();
    let canon = |v : &Vec<Vec<String>>| -> Vec<Vec<String>> { let mut v : Vec<Vec<String>> = v.iter().map(|x| { let mut x = x.clone(); x.sort(); x }).collect(); v.sort(); v };
    let exp_sorted = canon(&expected);
    let rep_sorted = canon(&reported);
    if exp_sorted != rep_sorted
    {
        let class =
            if reported.len() < expected.len() { "contradiction-not-reported" }
            else if reported.len() > expected.len() { "spurious-contradiction" }
            else { "wrong-targets-named" };
        out.push(Violation{ prop : "C17", sig : format!("C17:{}", class),
            detail : format!("op {}: contradictions reported {:?}; outputs that differ from the harness's record: {:?}", inv.op_index, reported, expected) });
    }
    let others : Vec<&ErrClass> = actual.iter().filter(|e| match e { ErrClass::Contradiction(_) => false, _ => true }).collect();
    if others.len() > 0
    {
        out.push(Violation{ prop : "C17", sig : format!("C17:unexpected-error:{}", hist::sig_of_verdict(&inv.res.verdict)),
            detail : format!("op {}: the scenario has no failing rule, yet {:?} was reported", inv.op_index, others) });
    }

    // (d) rules that neither have an undeclared input nor depend on one are unaffected
    // (e) dependents of a contradicted rule do not run
    if let Ok(m) = &inv.model
    {
        let tainted : BTreeSet<usize> = hidden.union(&downstream_of(&inv.rules, &hidden)).cloned().collect();
        let blocked = downstream_of(&inv.rules, &contradicted_rules);
        let runs = inv.runs_per_rule();
        for (idx, o) in m.outcomes.iter()
        {
            if blocked.contains(idx) && runs.get(idx).cloned().unwrap_or(0) > 0
            {
                out.push(Violation{ prop : "C17", sig : "C17:dependent-of-contradicted-rule-ran".to_string(),
                    detail : format!("op {}: rule {} depends on a rule whose outputs contradicted its record, yet its command ran", inv.op_index, idx) });
            }
            if tainted.contains(idx) { continue; }
            if let Outcome::Built(ts) = o
            {
                for (t, b, _) in ts.iter()
                {
                    if !inv.after.read(t).map(|a| *a == *b).unwrap_or(false)
                    {
                        out.push(Violation{ prop : "C17", sig : "C17:unrelated-rule-affected".to_string(),
                            detail : format!("op {}: rule {} has nothing to do with the undeclared input, yet its target {} is not up to date", inv.op_index, idx, t) });
                    }
                }
            }
        }
    }

    // (d') "builds of other rules are unaffected" includes what is remembered about them: a rule that
    //      has nothing to do with the undeclared input and was built from identical sources must
    //      not have to run again (the must-not-run obligation of C02, restricted to such rules)
    {
        let tainted : BTreeSet<usize> = hidden.union(&downstream_of(&inv.rules, &hidden)).cloned().collect();
        let (v2, info) = super::super::hist::oracle_c02(inv, runner);
        for v in v2
        {
            if !v.sig.starts_with("C02:unnecessary-run") { continue; }
            // A rule with an undeclared input is restored to what its *record* says, which is not
            // what the reference model (which sees the undeclared input) expects of it: bytes that
            // such a rule ever recorded may be taken from the cache by it, so a rule that wanted
            // the same bytes back has no claim on them.
            let tainted_bytes : BTreeSet<Vec<u8>> = tainted.iter().filter_map(|i| runner.record.get(&inv.rules[*i].identity()))
                .flat_map(|by| by.values()).flat_map(|outs| outs.iter().map(|(_, b)| b.clone())).collect();
            let contested = |r : &usize| -> bool
            {
                let srcs = match inv.model.as_ref().ok().and_then(|m| m.source_contents.get(r)) { Some(s) => s, None => return false };
                match runner.record.get(&inv.rules[*r].identity()).and_then(|by| by.get(srcs))
                {
                    Some(rec) => rec.iter().any(|(_, b)| tainted_bytes.contains(b)),
                    None => false,
                }
            };
            let about_untainted = info.obliged_rules.iter().any(|r| !tainted.contains(r) && !contested(r) && v.detail.contains(&format!("rule {} (", r)));
            if about_untainted
            {
                out.push(Violation{ prop : "C17", sig : "C17:unrelated-rule-forgotten".to_string(), detail : v.detail });
            }
        }
    }

    // (c) after the undeclared input is back to its original value the original record must
    //     still be in force: the final build succeeds with the original outputs
    if is_last
    {
        if inv.res.verdict != Verdict::Ok
        {
            out.push(Violation{ prop : "C17", sig : format!("C17:record-not-kept:{}", hist::sig_of_verdict(&inv.res.verdict)),
                detail : format!("op {}: the undeclared input is back to its original value, yet the build returned {}", inv.op_index, inv.res.verdict.short()) });
        }
        for v in oracle_c01(inv)
        {
            out.push(Violation{ prop : "C17", sig : v.sig.replace("C01:", "C17:after-restore:"), detail : v.detail });
        }
    }
    out
}

/* the files commands may read that no rule produces (leaves and undeclared inputs) */
fn inputs_snapshot(inv : &Inv) -> BTreeMap<String, Vec<u8>>
{
    let targets : BTreeSet<String> = inv.rules.iter().flat_map(|r| r.targets.clone()).collect();
    inv.before.workspace(&super::super::scen::ruler_dir()).into_iter()
        .filter(|(p, _)| !targets.contains(p) && !p.ends_with(".rules") && !p.starts_with("Rulesfile"))
        .map(|(p, (c, _))| (p, (*c).clone())).collect()
}

pub fn run_case(case : &Case, mut stats : Option<&mut Stats>) -> Vec<Violation>
{
    let mut runner = Runner::new(case);
    let mut baseline : Option<BTreeMap<String, Vec<u8>>> = None;
    let mut out = vec![];
    while !runner.done()
    {
        let i = runner.next_op;
        let name = match &runner.case.ops[i] { Op::Build{ sched, .. } | Op::Clean{ sched, .. } => sched.name(), _ => "" };
        match runner.step()
        {
            Some(inv) =>
            {
                if let Some(s) = stats.as_deref_mut() { s.note_invocation(&inv, name); }
                // "after restore": every input is back to what it was at the first successful
                // build, so the record made then must still be in force
                let mut restored = false;
                if inv.is_build
                {
                    let now = inputs_snapshot(&inv);
                    match &baseline
                    {
                        None => { if inv.res.verdict == Verdict::Ok && inv.goal.is_none() { baseline = Some(now); } },
                        Some(b) => restored = *b == now,
                    }
                }
                if restored { if let Some(s) = stats.as_deref_mut() { s.inc("c17.builds_after_restoring_the_input"); } }
                out.extend(check_inv(&inv, &runner, restored, stats.as_deref_mut()));
                runner.absorb(&inv);
            },
            None => { if let Some(s) = stats.as_deref_mut() { s.inc(&format!("userop.{}", runner.case.ops[i].kind())); } },
        }
    }
    out
}

pub fn replay(case : &Case) -> Vec<(String, String)>
{
    run_case(case, None).into_iter().map(|v| (v.sig, v.detail)).collect()
}

fn force_ops(rng : &mut Rng, rule : &SRule, original : &BTreeMap<String, Vec<u8>>, ops : &mut Vec<Op>)
{
    let targets = rule.sorted_targets();
    let n = 1 + rng.below(targets.len() as u64) as usize;
    let mut chosen = targets.clone();
    rng.shuffle(&mut chosen);
    chosen.truncate(n);
    let how = rng.below(3);
    if how == 2
    {
        // clean the rule, then remove the cached copies
        ops.push(Op::Clean{ goal : Some(targets[0].clone()), sched : SchedSpec::random(rng) });
    }
    for t in chosen.iter()
    {
        match how
        {
            0 => ops.push(Op::Delete{ path : t.clone() }),
            1 => ops.push(Op::Write{ path : t.clone(), content : format!("tampered{}", rng.below(3)).into_bytes() }),
            _ => {},
        }
        if let Some(c) = original.get(t)
        {
            ops.push(Op::DeleteCacheContent{ content : c.clone() });
        }
    }
}

pub fn run_one(cfg : &Config, seed : u64, k : u64, stats : &mut Stats) -> Vec<Found>
{
    let mut rng = Rng::derive(seed, 4);
    let mut g = GenCfg::base(cfg.thorough);
    g.max_rules = rng.range(1, if cfg.thorough { 10 } else { 6 });
    g.max_ops = 0;
    g.min_ops = 0;
    g.end_with_build = false;
    g.failing = false;
    g.missing_leaves = false;
    g.hidden = true;
    g.dir_leaves = false;   // members of a directory source are declared through the directory, not undeclared inputs
    g.user_damage = false;
    g.rule_edits = false;
    g.exec = rng.chance(1, 3);
    g.shared_pool = rng.chance(1, 2);
    let mut gen = Gen::new(seed, g);
    let mut case = gen.case();
    case.ops.clear();

    let rules = gen.current_rules();
    let files = gen.current_files();
    let hidden = hidden_rules(&rules);
    let hidden_names = gen.hidden_names();
    if hidden.len() == 0 || hidden_names.len() == 0
    {
        stats.inc("c17.generated_without_hidden_input");
        stats.end_run();
        return vec![];
    }

    // original outputs (for removing cached copies)
    let reader = { let f = files.clone(); move |p : &str| f.get(p).cloned() };
    let original : BTreeMap<String, Vec<u8>> = match model::evaluate(&rules, None, &reader)
    {
        Ok(m) => m.outcomes.values().flat_map(|o| match o { Outcome::Built(ts) => ts.iter().map(|(t, b, _)| (t.clone(), b.clone())).collect::<Vec<_>>(), _ => vec![] }).collect(),
        Err(_) => { stats.end_run(); return vec![]; },
    };

    let victim = *rng.pick(&hidden.iter().cloned().collect::<Vec<usize>>());
    let h = rng.pick(&hidden_names).clone();
    let old = files.get(&h).cloned().unwrap_or(vec![]);
    let new = { let mut n = old.clone(); n.extend_from_slice(b"'"); n };

    case.ops.push(Op::Build{ goal : None, sched : SchedSpec::random(&mut rng) });
    // long memory: the victim is built from other states of its declared sources in between, and
    // cached copies of its first outputs are evicted, before the undeclared input changes and the
    // declared sources return to the first state
    let victim_leaves : Vec<String> = rules[victim].sources.iter().filter(|s| gen.leaf_names().contains(s)).cloned().collect();
    let long_memory = victim_leaves.len() > 0 && rng.chance(1, 3);
    let mut revert_declared : Option<(String, Vec<u8>)> = None;
    if long_memory
    {
        stats.inc("c17.histories_with_other_source_states_in_between");
        let l = rng.pick(&victim_leaves).clone();
        let first = files.get(&l).cloned().unwrap_or(vec![]);
        let states = rng.range(1, 3);
        for i in 0..states
        {
            let mut c = first.clone();
            c.extend_from_slice(format!("~{}", i).as_bytes());
            case.ops.push(Op::Write{ path : l.clone(), content : c });
            if i == 0 || rng.chance(1, 2)
            {
                match rng.below(4)
                {
                    0 => {},
                    1 => case.ops.push(Op::DeleteRulerDir{ part : DirPart::Cache }),
                    _ => for t in rules[victim].targets.iter() { if let Some(b) = original.get(t) { if rng.chance(2, 3) { case.ops.push(Op::DeleteCacheContent{ content : b.clone() }); } } },
                }
            }
            case.ops.push(Op::Build{ goal : None, sched : SchedSpec::random(&mut rng) });
        }
        revert_declared = Some((l, first));
    }
    case.ops.push(Op::Write{ path : h.clone(), content : new });
    if let Some((l, c)) = &revert_declared { case.ops.push(Op::Write{ path : l.clone(), content : c.clone() }); }
    let mut unrelated_edit : Option<(String, Vec<u8>)> = None;
    if !long_memory && rng.chance(1, 2)
    {
        // an unrelated rule gets new work in the same build as the contradiction
        let leaves = gen.leaf_names();
        if leaves.len() > 0
        {
            let l = rng.pick(&leaves).clone();
            let old_c = files.get(&l).cloned().unwrap_or(vec![]);
            let mut c = old_c.clone();
            c.extend_from_slice(b"+");
            case.ops.push(Op::Write{ path : l.clone(), content : c });
            unrelated_edit = Some((l, old_c));
        }
    }
    force_ops(&mut rng, &rules[victim], &original, &mut case.ops);
    case.ops.push(Op::Build{ goal : None, sched : SchedSpec::random(&mut rng) });
    if rng.chance(1, 3)
    {
        // build again without touching anything: the contradiction must be reported again or the
        // state must be consistent
        case.ops.push(Op::Build{ goal : None, sched : SchedSpec::random(&mut rng) });
    }
    case.ops.push(Op::Write{ path : h.clone(), content : old });
    if let Some((l, c)) = unrelated_edit { case.ops.push(Op::Write{ path : l, content : c }); }
    // force every rule that reads an undeclared input, so that the final build has to reproduce the originals
    for r in hidden.iter()
    {
        force_ops(&mut rng, &rules[*r], &original, &mut case.ops);
    }
    case.ops.push(Op::Build{ goal : None, sched : SchedSpec::random(&mut rng) });

    if k < 3 * cfg.workers { stats.sample(case.to_j().set("undeclared_input", J::s(&h))); }

    let vs = run_case(&case, Some(stats));
    stats.end_run();
    let mut found = vec![];
    let mut seen = BTreeSet::new();
    for v in vs
    {
        if !seen.insert(v.sig.clone()) || !stats.reported.insert(v.sig.clone()) { continue; }
        let explicit = explicit_schedules(&case);
        let base = if run_case(&explicit, None).iter().any(|x| x.sig == v.sig) { explicit } else { case.clone() };
        let sig = v.sig.clone();
        let test = move |c : &Case| run_case(c, None).iter().any(|x| x.sig == sig);
        let small = minimize(&base, &test);
        let detail = run_case(&small, None).into_iter().find(|x| x.sig == v.sig).map(|x| x.detail).unwrap_or(v.detail.clone());
        found.push(Found{ prop : "C17".to_string(), sig : v.sig.clone(), detail : detail, explain : small.to_j(), replay : Replay::C17{ case : small } });
    }
    found
}
