// eng_pair.rs — C18: the modification-time shortcut never changes a result.  Differential: each
// history is executed as is, and with the file-state table erased before every build; under the
// 'distinct' and the coarse 'tick' clock; under a policy schedule (no alignment needed).

use super::*;
use crate::current::CurrentFileStates;
use super::super::hist::{oracle_c01, table_path, in_cache, in_ruler_dir};
use super::super::scen::ruler_dir;
use super::super::util::{cache_name_of, show_bytes};

fn clock_name(c : ClockMode) -> &'static str
{
    match c { ClockMode::Distinct => "distinct-clock", ClockMode::Tick => "tick-clock", ClockMode::Unordered => "unordered-distinct-clock" }
}

/* probe: table entries whose remembered mtime equals the file's current mtime but whose remembered
   hash is not the hash of the file's bytes ("table entry attached to a different file") */
fn stale_table_entries(runner : &Runner) -> usize
{
    let disk = runner.world.snapshot().0;
    let targets : Vec<String> = runner.rules.iter().flat_map(|r| r.targets.clone()).collect();
    let mut n = 0;
    let r = std::panic::catch_unwind(std::panic::AssertUnwindSafe(||
    {
        match CurrentFileStates::from_file(runner.world.system(), table_path())
        {
            Ok(mut t) =>
            {
                let blob = t.take_blob(targets.clone());
                let mut k = 0;
                for info in blob.get_file_infos()
                {
                    if let (Some(c), Some((mtime, _))) = (disk.read(&info.path), disk.meta(&info.path))
                    {
                        if info.file_state.timestamp == mtime && info.file_state.ticket.human_readable() != cache_name_of(&c)
                        {
                            k += 1;
                        }
                    }
                }
                k
            },
            Err(_) => 0,
        }
    }));
    if let Ok(k) = r { n = k; }
    n
}

pub fn run_pair(case : &Case, stats : Option<&mut Stats>) -> Vec<Violation>
{
    run_pair_probe(case, stats).0
}

/* second component: the probe saw a table entry attached to a different file at some point */
pub fn run_pair_probe(case : &Case, mut stats : Option<&mut Stats>) -> (Vec<Violation>, bool)
{
    let mut out = vec![];
    let mut stale_seen = false;
    let mut a = Runner::new(case);
    let mut b = Runner::new(case);
    let clock = clock_name(case.knobs.clock);
    let mut restores_seen = false;
    let mut shortcut_after_restore = false;
    let mut builds = 0;

    while !a.done()
    {
        let i = a.next_op;
        let is_build = match &case.ops[i] { Op::Build{..} => true, _ => false };
        if is_build
        {
            // erase the table in execution B (no clock tick: the erasure is not a user action of the history)
            let mut g = b.world.lock();
            let _ = g.disk.remove_file(&table_path());
        }
        let name = match &case.ops[i] { Op::Build{ sched, .. } | Op::Clean{ sched, .. } => sched.name(), _ => "" };
        let ia = a.step();
        let ib = b.step();
        match (ia, ib)
        {
            (Some(ia), Some(ib)) =>
            {
                if let Some(s) = stats.as_deref_mut()
                {
                    s.note_invocation(&ia, name);
                    s.note_invocation(&ib, name);
                    if is_build { s.inc("fault.table_erased_before_build"); }
                }
                if ia.is_build
                {
                    builds += 1;
                    // did the shortcut fire after a restore-by-rename?  (a get_modified on a path that
                    // was restored earlier in this history, not followed by hashing = no open of it)
                    for e in ia.res.events.iter()
                    {
                        if let Ev::Fs{ op : FsOp::Rename, origin : Origin::Ruler, path, path2 : Some(to), ok : true, .. } = &e.kind
                        {
                            if in_cache(path) && !in_ruler_dir(to) { restores_seen = true; }
                        }
                    }
                    if restores_seen && builds >= 2 { shortcut_after_restore = true; }

                    let va = ia.res.verdict.canonical();
                    let vb = ib.res.verdict.canonical();
                    if ia.res.verdict.returned() && ib.res.verdict.returned()
                    {
                        if va != vb
                        {
                            out.push(Violation{ prop : "C18", sig : format!("C18:verdict-differs:{}", clock),
                                detail : format!("op {}: with the table: {}; with the table erased: {}", i, va, vb) });
                        }
                        else
                        {
                            let wa = ia.after.workspace(&ruler_dir());
                            let wb = ib.after.workspace(&ruler_dir());
                            for (p, (c, _)) in wa.iter()
                            {
                                match wb.get(p)
                                {
                                    Some((c2, _)) if **c == **c2 => {},
                                    other =>
                                    {
                                        out.push(Violation{ prop : "C18", sig : format!("C18:content-differs:{}", clock),
                                            detail : format!("op {}: {} is {} with the table and {:?} with the table erased", i, p, show_bytes(c), other.map(|(c2, _)| show_bytes(c2))) });
                                        break;
                                    },
                                }
                            }
                            for p in wb.keys()
                            {
                                if !wa.contains_key(p)
                                {
                                    out.push(Violation{ prop : "C18", sig : format!("C18:content-differs:{}", clock),
                                        detail : format!("op {}: {} exists only with the table erased", i, p) });
                                    break;
                                }
                            }
                        }
                    }
                    if case.knobs.clock != ClockMode::Tick
                    {
                        for v in oracle_c01(&ia).into_iter().chain(oracle_c01(&ib).into_iter())
                        {
                            out.push(Violation{ prop : "C18", sig : v.sig.replace("C01:", "C18:distinct-clock-cross-check:"), detail : v.detail });
                        }
                    }
                    let n = stale_table_entries(&a);
                    if n > 0
                    {
                        stale_seen = true;
                        if let Some(s) = stats.as_deref_mut() { s.add("probe.table_entry_attached_to_a_different_file", n as u64); }
                    }
                }
                a.absorb(&ia);
                b.absorb(&ib);
            },
            (None, None) => { if let Some(s) = stats.as_deref_mut() { s.inc(&format!("userop.{}", case.ops[i].kind())); } },
            _ => {},
        }
    }
    if let Some(s) = stats.as_deref_mut()
    {
        s.end_run();
        s.inc(&format!("c18.histories.{}", clock));
        if shortcut_after_restore
        {
            s.inc("c18.histories_with_build_after_restore");
            s.distinct.insert(H64::new().str(clock).u64(shape_hash(&case.rules)).u64(ops_hash(&case.ops)).get());
        }
    }
    (out, stale_seen)
}

pub fn replay(case : &Case) -> Vec<(String, String)>
{
    run_pair(case, None).into_iter().map(|v| (v.sig, v.detail)).collect()
}

pub fn run_one(cfg : &Config, seed : u64, k : u64, stats : &mut Stats) -> Vec<Found>
{
    let mut rng = Rng::derive(seed, 5);
    let mut g = GenCfg::base(cfg.thorough);
    g.max_rules = rng.range(1, if cfg.thorough { 10 } else { 6 });
    g.max_ops = if cfg.thorough { 12 } else { 8 };
    g.min_ops = 3;
    g.shared_pool = rng.chance(3, 4);
    g.empty_salts = rng.chance(3, 4);
    g.twins = rng.chance(1, 3);
    g.failing = rng.chance(1, 6);
    g.missing_leaves = rng.chance(1, 6);
    g.rule_edits = rng.chance(1, 3);
    g.user_damage = rng.chance(1, 2);
    g.cleans = *rng.pick(&[10u64, 20, 30]);
    g.goals = true;
    g.moves = false;    // a user `mv` of a same-tick file is outside C18's operation set
    g.clock = Some(if rng.chance(1, 2) { ClockMode::Distinct } else { ClockMode::Tick });
    g.policy_sched = Some(if rng.chance(1, 2) { Strategy::Serial } else { Strategy::Reverse });
    if rng.chance(1, 2)
    {
        // the region where a remembered (hash, mtime) pair can land on a different file: few
        // leaves, few contents, copy-like rules, many edits and reverts between builds
        g.copy_rules = true;
        g.shared_pool = true;
        g.edits_only = rng.chance(2, 3);
        g.failing = false;
        g.missing_leaves = false;
        g.max_ops = if cfg.thorough { 14 } else { 10 };
        g.min_ops = 6;
        g.cleans = *rng.pick(&[0u64, 0, 10]);
        g.twins = false;
    }
    let epoch_mode = g.copy_rules && rng.chance(2, 3);
    if epoch_mode
    {
        g = epoch_gen_cfg(cfg.thorough, &mut rng);
        g.clock = Some(if rng.chance(1, 3) { ClockMode::Distinct } else { ClockMode::Tick });
    }
    let mut gen = Gen::new(seed, g);
    let mut case = gen.case();
    let fan_mode = epoch_mode && rng.chance(1, 2);
    if fan_mode
    {
        // one rule with several targets, each a copy of its own leaf, plus dependents that copy one
        // of them: sibling targets exchange contents through the cache when the leaves are edited
        stats.inc("c18.fan_mode_histories");
        let k = rng.range(3, 4);
        let names = ["o1", "o2", "o3", "o4"];
        let leaves : Vec<String> = (0..k).map(|i| format!("l{}", i + 1)).collect();
        let mut rules = vec![SRule
        {
            targets : (0..k).map(|i| names[i].to_string()).collect(),
            sources : leaves.clone(),
            lines : (0..k).map(|i| Line::Emit{ target : names[i].to_string(), salt : "".to_string(), inputs : vec![leaves[i].clone()], exec : false }).collect(),
        }];
        let deps = rng.range(1, 2);
        for d in 0..deps
        {
            let src = names[rng.below(k as u64) as usize].to_string();
            let t = format!("f{}", d + 1);
            rules.push(SRule{ targets : vec![t.clone()], sources : vec![src.clone()], lines : vec![Line::Emit{ target : t, salt : "".to_string(), inputs : vec![src], exec : false }] });
        }
        let pool : Vec<&[u8]> = vec![b"A", b"B", b"C"];
        case.rules = rules.clone();
        case.files = leaves.iter().map(|l| (l.clone(), rng.pick(&pool).to_vec())).collect();
        case.files.push(("README".to_string(), b"bystander".to_vec()));
        case.dirs = vec![];
        case.rule_files = 1;
        case.ops.clear();
        let targets : Vec<String> = rules.iter().flat_map(|r| r.targets.clone()).collect();
        let epochs = rng.range(3, if cfg.thorough { 7 } else { 5 });
        // leaf values per epoch, so that an epoch can put *all* leaves back to an earlier state
        let mut states : Vec<Vec<Vec<u8>>> = vec![case.files.iter().take(k).map(|(_, c)| c.clone()).collect()];
        for e in 0..epochs
        {
            if e > 0
            {
                let mut now = states.last().unwrap().clone();
                if e >= 2 && rng.chance(1, 3)
                {
                    now = states[rng.below((states.len() - 1) as u64) as usize].clone();
                }
                else
                {
                    for v in now.iter_mut() { if rng.chance(3, 5) { *v = rng.pick(&pool).to_vec(); } }
                }
                for (i, l) in leaves.iter().enumerate()
                {
                    if now[i] != states.last().unwrap()[i] { case.ops.push(Op::Write{ path : l.clone(), content : now[i].clone() }); }
                }
                states.push(now);
                if rng.chance(1, 2) { case.ops.push(Op::Delete{ path : names[rng.below(k as u64) as usize].to_string() }); }
                if rng.chance(1, 8) { case.ops.push(Op::Clean{ goal : Some(rng.pick(&targets).clone()), sched : SchedSpec::serial() }); }
            }
            case.ops.push(Op::Build{ goal : None, sched : SchedSpec{ strategy : if rng.chance(1, 2) { Strategy::Serial } else { Strategy::Reverse }, seed : 0 } });
        }
    }
    else if epoch_mode
    {
        stats.inc("c18.epoch_mode_histories");
        let leaves = gen.leaf_names();
        let targets : Vec<String> = gen.current_rules().iter().flat_map(|r| r.targets.clone()).collect();
        let epochs = rng.range(3, if cfg.thorough { 8 } else { 6 });
        let clean_one_in = *rng.pick(&[0u64, 3, 5, 8]);
        case.ops = epoch_ops(&mut rng, &leaves, &targets, epochs, clean_one_in, Some(&[Strategy::Serial, Strategy::Reverse]));
    }
    if epoch_mode && rng.chance(1, 3)
    {
        // an unrelated rule whose leaf comes and goes: some of the builds that restore and
        // rebuild the interesting targets also report an error
        stats.inc("c18.histories_with_failing_bystander");
        case.rules.push(SRule{ targets : vec!["byt".to_string()], sources : vec!["bys".to_string()],
            lines : vec![Line::Emit{ target : "byt".to_string(), salt : "".to_string(), inputs : vec!["bys".to_string()], exec : false }] });
        case.files.push(("bys".to_string(), b"Z".to_vec()));
        let mut present = true;
        let mut ops = vec![];
        for op in case.ops.drain(..)
        {
            if let Op::Build{ .. } = op
            {
                if rng.chance(1, 3)
                {
                    if present { ops.push(Op::Delete{ path : "bys".to_string() }); } else { ops.push(Op::Write{ path : "bys".to_string(), content : b"Z".to_vec() }); }
                    present = !present;
                }
            }
            ops.push(op);
        }
        case.ops = ops;
    }
    if k < 3 * cfg.workers { stats.sample(case.to_j()); }

    let (mut vs, stale_seen) = run_pair_probe(&case, Some(stats));
    let mut case = case;
    if vs.len() == 0 && stale_seen
    {
        // guidance: the table holds a (hash, mtime) pair that no longer describes the file at its
        // path.  That is latent, not yet a changed result; follow the history further — no-change
        // builds, then more edit/revert epochs over the contents seen so far — to see whether a
        // result ever changes.
        stats.inc("c18.histories_extended_after_probe");
        let leaves : Vec<String> = case.files.iter().map(|(p, _)| p.clone()).filter(|p| p != "README").collect();
        let targets : Vec<String> = case.rules.iter().flat_map(|r| r.targets.clone()).collect();
        let mut pool : Vec<Vec<u8>> = case.files.iter().filter(|(p, _)| p != "README").map(|(_, c)| c.clone()).collect();
        for op in case.ops.iter() { if let Op::Write{ path, content } = op { if leaves.contains(path) && !pool.contains(content) { pool.push(content.clone()); } } }
        for attempt in 0..12
        {
            let mut ext = case.clone();
            ext.ops.push(Op::Build{ goal : None, sched : SchedSpec::serial() });
            let epochs = 1 + attempt % 3;
            for _ in 0..epochs
            {
                for l in leaves.iter()
                {
                    if rng.chance(3, 5) { ext.ops.push(Op::Write{ path : l.clone(), content : rng.pick(&pool).clone() }); }
                    else if rng.chance(1, 10) { ext.ops.push(Op::Delete{ path : l.clone() }); }
                }
                if targets.len() > 0 && rng.chance(1, 6) { ext.ops.push(Op::Clean{ goal : Some(rng.pick(&targets).clone()), sched : SchedSpec::serial() }); }
                ext.ops.push(Op::Build{ goal : None, sched : SchedSpec::serial() });
            }
            let v2 = run_pair(&ext, Some(stats));
            if v2.len() > 0
            {
                vs = v2;
                case = ext;
                break;
            }
        }
    }
    let mut found = vec![];
    let mut seen = BTreeSet::new();
    for v in vs
    {
        if !seen.insert(v.sig.clone()) || !stats.reported.insert(v.sig.clone()) { continue; }
        let sig = v.sig.clone();
        let test = move |c : &Case| run_pair(c, None).iter().any(|x| x.sig == sig);
        let small = minimize(&case, &test);
        let detail = run_pair(&small, None).into_iter().find(|x| x.sig == v.sig).map(|x| x.detail).unwrap_or(v.detail.clone());
        found.push(Found{ prop : "C18".to_string(), sig : v.sig.clone(), detail : detail, explain : small.to_j(), replay : Replay::Table{ case : small } });
    }
    found
}
