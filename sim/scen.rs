// scen.rs — scenario data: rules with scripts in the stub command language, user operations,
// whole test cases; rendering to `.rules` text (which ruler itself then parses, sorts and hashes).

use serde::{Serialize, Deserialize};

use super::rt::SchedSpec;
use super::simsys::Knobs;
use super::util::{J, show_bytes};

#[derive(Clone, Debug, PartialEq, Eq, Hash, PartialOrd, Ord, Serialize, Deserialize)]
pub enum Line
{
    Emit{ target : String, salt : String, inputs : Vec<String>, exec : bool },
    FailIf{ input : String },
    Fail,
}

impl Line
{
    pub fn render(&self) -> String
    {
        match self
        {
            Line::Emit{ target, salt, inputs, exec } =>
            {
                let mut s = format!("{} {} {}", if *exec { "emit+x" } else { "emit" }, target,
                    if salt.len() == 0 { "-" } else { salt.as_str() });
                for i in inputs.iter()
                {
                    s.push(' ');
                    s.push_str(i);
                }
                s
            },
            Line::FailIf{ input } => format!("failif {}", input),
            Line::Fail => "fail".to_string(),
        }
    }
}

#[derive(Clone, Debug, PartialEq, Eq, Hash, PartialOrd, Ord, Serialize, Deserialize)]
pub struct SRule
{
    pub targets : Vec<String>,
    pub sources : Vec<String>,
    pub lines : Vec<Line>,
}

impl SRule
{
    /* The command section exactly as it appears in the rules file: one script line per
       rules-file line, separated by lone ";" lines (ruler's own convention). */
    pub fn command_lines(&self) -> Vec<String>
    {
        let mut out = vec![];
        for (i, l) in self.lines.iter().enumerate()
        {
            if i > 0
            {
                out.push(";".to_string());
            }
            out.push(l.render());
        }
        if out.len() == 0
        {
            out.push(self.noop_line());
        }
        out
    }

    /* a rule without script lines still gets a command that names it, so that every rule's
       script text is unique (rules have pairwise different target sets) */
    fn noop_line(&self) -> String
    {
        format!("noop {}", self.sorted_targets().join(" "))
    }

    /* The script lines as ruler hands them to System::execute_command */
    pub fn script(&self) -> Vec<String>
    {
        if self.lines.len() == 0
        {
            return vec![self.noop_line()];
        }
        self.lines.iter().map(|l| l.render()).collect()
    }

    pub fn sorted_targets(&self) -> Vec<String>
    {
        let mut t = self.targets.clone();
        t.sort();
        t.dedup();
        t
    }

    pub fn sorted_sources(&self) -> Vec<String>
    {
        let mut s = self.sources.clone();
        s.sort();
        s.dedup();
        s
    }

    /* Harness-side rule identity (C02/C13 wording): set of targets, set of sources, command lines in order.
       Deliberately not computed with Rule::get_ticket. */
    pub fn identity(&self) -> (Vec<String>, Vec<String>, Vec<String>)
    {
        (self.sorted_targets(), self.sorted_sources(), self.command_lines())
    }

    pub fn render(&self) -> String
    {
        self.render_style(false)
    }

    /* `bundled`: paths that share a first directory component are written as a tab-indented
       bundle ("out" / "\ta" / "\tb"), the other documented way to list paths */
    pub fn render_style(&self, bundled : bool) -> String
    {
        /* flat: one path per line.  bundled: paths below a directory are written as a nested,
           tab-indented bundle ("out" / "\tdeep" / "\t\ter" / "\t\t\tx"); paths without '/' stay as they are */
        fn section(paths : &[String], bundled : bool, s : &mut String)
        {
            if !bundled
            {
                for p in paths.iter() { s.push_str(p); s.push('\n'); }
                return;
            }
            #[derive(Default)]
            struct Node { children : std::collections::BTreeMap<String, Node>, order : Vec<String> }
            fn insert(node : &mut Node, parts : &[&str])
            {
                if parts.len() == 0 { return; }
                if !node.children.contains_key(parts[0]) { node.order.push(parts[0].to_string()); }
                let child = node.children.entry(parts[0].to_string()).or_insert_with(Node::default);
                insert(child, &parts[1..]);
            }
            fn emit(node : &Node, depth : usize, s : &mut String)
            {
                for name in node.order.iter()
                {
                    for _ in 0..depth { s.push('\t'); }
                    s.push_str(name);
                    s.push('\n');
                    emit(&node.children[name], depth + 1, s);
                }
            }
            let mut root = Node::default();
            for p in paths.iter()
            {
                // a path that leaves the workspace ("/x", "../x") is written out as it is
                let parts : Vec<&str> = if p.starts_with('/') || p.starts_with("..") { vec![p.as_str()] } else { p.split('/').collect() };
                insert(&mut root, &parts);
            }
            emit(&root, 0, s);
        }
        let mut s = String::new();
        section(&self.targets, bundled, &mut s);
        s.push_str(":\n");
        section(&self.sources, bundled, &mut s);
        s.push_str(":\n");
        for t in self.command_lines().iter()
        {
            s.push_str(t);
            s.push('\n');
        }
        s.push_str(":\n");
        s
    }

    /* The same rule with its script translated to POSIX shell (used only by the RealSystem
       differential run): emit = printf salt + cat inputs into the target, then chmod. */
    pub fn render_shell(&self) -> String
    {
        let mut s = String::new();
        for t in self.targets.iter() { s.push_str(t); s.push('\n'); }
        s.push_str(":\n");
        for t in self.sources.iter() { s.push_str(t); s.push('\n'); }
        s.push_str(":\n");
        let mut first = true;
        for l in self.lines.iter()
        {
            if !first { s.push_str(";\n"); }
            first = false;
            match l
            {
                Line::Emit{ target, salt, inputs, exec } =>
                {
                    let ins = inputs.join(" ");
                    if inputs.len() > 0
                    {
                        s.push_str(&format!("cat {} > /dev/null && {{ printf '%s' '{}'; cat {}; }} > {} && chmod {} {}\n", ins, salt, ins, target, if *exec { "+x" } else { "-x" }, target));
                    }
                    else
                    {
                        s.push_str(&format!("printf '%s' '{}' > {} && chmod {} {}\n", salt, target, if *exec { "+x" } else { "-x" }, target));
                    }
                },
                Line::FailIf{ input } => s.push_str(&format!("! grep -q FAIL {}\n", input)),
                Line::Fail => s.push_str("false\n"),
            }
        }
        if self.lines.len() == 0 { s.push_str("true\n"); }
        s.push_str(":\n");
        s
    }

    pub fn to_j(&self) -> J
    {
        J::obj()
            .set("targets", J::strs(&self.targets))
            .set("sources", J::strs(&self.sources))
            .set("command", J::strs(&self.script()))
    }
}

pub fn render_rules(rules : &[SRule]) -> String
{
    render_rules_style(rules, false)
}

pub fn render_rules_style(rules : &[SRule], bundled : bool) -> String
{
    let mut s = String::new();
    for (i, r) in rules.iter().enumerate()
    {
        if i > 0
        {
            s.push('\n');
        }
        s.push_str(&r.render_style(bundled));
    }
    s
}

#[derive(Clone, Debug, PartialEq, Serialize, Deserialize)]
pub enum DirPart
{
    Whole,
    Cache,
    History,
    HistoryFile(u32),   // pick-th file of history/ (sorted), modulo the count at that moment
    Table,
}

#[derive(Clone, Debug, PartialEq, Serialize, Deserialize)]
pub enum Op
{
    /* edit / revert / create a file (source, hidden input, or — as "tamper" — a target) */
    Write{ path : String, content : Vec<u8> },
    Delete{ path : String },
    Chmod{ path : String, exec : bool },
    SetRules{ rules : Vec<SRule> },
    Build{ goal : Option<String>, sched : SchedSpec },
    Clean{ goal : Option<String>, sched : SchedSpec },
    /* delete the pick-th cache entry (sorted), modulo the count at that moment */
    DeleteCacheEntry{ pick : u32 },
    /* delete the cache entry holding exactly these bytes, if any */
    DeleteCacheContent{ content : Vec<u8> },
    DeleteRulerDir{ part : DirPart },
    /* `mv from to` by the user: the moved file keeps its (older) modification time */
    Move{ from : String, to : String },
    /* storage fault on a state file between invocations: the pick-th history file (or the table when
       `table`) is truncated to `keep` bytes, or replaced by garbage when `keep` is None */
    DamageState{ table : bool, pick : u32, keep : Option<u32> },
    /* rewrite the rules files with the same rules in the other documented notation
       (flat paths / tab-indented directory bundles) */
    Restyle{ bundled : bool },
    /* the user removes every empty workspace directory (after a clean emptied them) ... */
    PruneDirs,
    /* ... and makes the case's directories again */
    MakeDirs,
    /* the user puts a directory where a file (a target) is expected */
    DirAt{ path : String },
}

impl Op
{
    pub fn is_invocation(&self) -> bool
    {
        match self
        {
            Op::Build{..} | Op::Clean{..} => true,
            _ => false,
        }
    }

    pub fn kind(&self) -> &'static str
    {
        match self
        {
            Op::Write{..} => "write",
            Op::Delete{..} => "delete",
            Op::Chmod{..} => "chmod",
            Op::SetRules{..} => "set-rules",
            Op::Build{ goal : None, .. } => "build",
            Op::Build{ goal : Some(_), .. } => "build-goal",
            Op::Clean{ goal : None, .. } => "clean",
            Op::Clean{ goal : Some(_), .. } => "clean-goal",
            Op::DeleteCacheEntry{..} => "delete-cache-entry",
            Op::DeleteCacheContent{..} => "delete-cache-content",
            Op::DeleteRulerDir{..} => "delete-ruler-dir",
            Op::Move{..} => "move",
            Op::DamageState{..} => "damage-state-file",
            Op::Restyle{..} => "restyle-rules-file",
            Op::PruneDirs => "remove-empty-directories",
            Op::MakeDirs => "make-directories",
            Op::DirAt{..} => "directory-at-target-path",
        }
    }

    pub fn to_j(&self) -> J
    {
        let o = J::obj().set("op", J::s(self.kind()));
        match self
        {
            Op::Write{ path, content } => o.set("path", J::s(path)).set("content", J::Str(show_bytes(content))),
            Op::Delete{ path } => o.set("path", J::s(path)),
            Op::Chmod{ path, exec } => o.set("path", J::s(path)).set("exec", J::Bool(*exec)),
            Op::SetRules{ rules } => o.set("rules", J::Arr(rules.iter().map(|r| r.to_j()).collect())),
            Op::Build{ goal, sched } | Op::Clean{ goal, sched } =>
            {
                let o = match goal { Some(g) => o.set("goal", J::s(g)), None => o };
                o.set("schedule", sched_to_j(sched))
            },
            Op::DeleteCacheEntry{ pick } => o.set("pick", J::Int(*pick as i64)),
            Op::DeleteCacheContent{ content } => o.set("content", J::Str(show_bytes(content))),
            Op::DeleteRulerDir{ part } => o.set("part", J::Str(format!("{:?}", part))),
            Op::Move{ from, to } => o.set("from", J::s(from)).set("to", J::s(to)),
            Op::PruneDirs | Op::MakeDirs => o,
            Op::DirAt{ path } => o.set("path", J::s(path)),
            Op::Restyle{ bundled } => o.set("notation", J::s(if *bundled { "directory bundles" } else { "flat paths" })),
            Op::DamageState{ table, pick, keep } => o.set("file", J::Str(if *table { "current_file_states".to_string() } else { format!("history file #{}", pick) }))
                .set("how", J::Str(match keep { Some(n) => format!("truncated to {} bytes", n), None => "replaced by garbage".to_string() })),
        }
    }
}

pub fn sched_to_j(s : &SchedSpec) -> J
{
    use super::rt::Strategy;
    match &s.strategy
    {
        Strategy::Record(v) => J::obj().set("record", J::Arr(v.iter().map(|(i, t)| J::Arr(vec![J::Int(*i as i64), J::Int(*t as i64)])).collect())),
        other => J::obj().set("strategy", J::Str(format!("{:?}", other))).set("seed", J::Str(format!("{}", s.seed))),
    }
}

#[derive(Clone, Debug, PartialEq, Serialize, Deserialize)]
pub struct Case
{
    pub rules : Vec<SRule>,
    /* initial workspace files: sources, hidden inputs, planted bystanders */
    pub files : Vec<(String, Vec<u8>)>,
    pub dirs : Vec<String>,
    /* how many rules files the rules are spread over (1 or 2) */
    pub rule_files : u8,
    pub ops : Vec<Op>,
    pub knobs : Knobs,
}

thread_local!
{
    static RULER_DIR_NAME : std::cell::RefCell<String> = std::cell::RefCell::new(".ruler".to_string());
}

/* The directory handed to build()/clean()/serve() as ruler's own.  ".ruler" unless the case says
   otherwise (a configuration the checks vary: a change that hard-codes the default must show). */
pub fn ruler_dir() -> String
{
    RULER_DIR_NAME.with(|n| n.borrow().clone())
}

pub fn set_ruler_dir(name : &str)
{
    RULER_DIR_NAME.with(|n| *n.borrow_mut() = name.to_string());
}

impl Case
{
    /* `rule_files` packs two formatting choices: units = number of rules files (1 or 2),
       tens = 1 when paths are written as directory bundles */
    pub fn bundled(&self) -> bool { self.rule_files / 10 == 1 }

    /* configuration markers ride in `dirs` (entries starting with '@' are not directories):
       "@ruler=<dir>" names ruler's own directory, "@rules=<first>,<second>" the rules files */
    pub fn marker(&self, key : &str) -> Option<String>
    {
        let prefix = format!("@{}=", key);
        self.dirs.iter().find(|d| d.starts_with(&prefix)).map(|d| d[prefix.len()..].to_string())
    }

    /* "@dirleaf=<dir>:<member>,<member>": a leaf that is a directory */
    pub fn dir_leaves(&self) -> Vec<(String, Vec<String>)>
    {
        self.dirs.iter().filter_map(|d| d.strip_prefix("@dirleaf=")).filter_map(|d| d.split_once(':'))
            .map(|(dir, ms)| (dir.to_string(), ms.split(',').map(|m| m.to_string()).collect())).collect()
    }

    pub fn ruler_dir_name(&self) -> String
    {
        self.marker("ruler").unwrap_or(".ruler".to_string())
    }

    pub fn rulefile_paths(&self) -> Vec<String>
    {
        if let Some(names) = self.marker("rules")
        {
            let v : Vec<String> = names.split(',').map(|s| s.to_string()).collect();
            return if self.rule_files % 10 >= 2 { v } else { v[..1].to_vec() };
        }
        if self.rule_files % 10 >= 2 { vec!["build.rules".to_string(), "more.rules".to_string()] }
        else { vec!["build.rules".to_string()] }
    }

    pub fn to_j(&self) -> J
    {
        J::obj()
            .set("rules", J::Arr(self.rules.iter().map(|r| r.to_j()).collect()))
            .set("files", J::Arr(self.files.iter().map(|(p, c)| J::Arr(vec![J::s(p), J::Str(show_bytes(c))])).collect()))
            .set("rule_files", J::Int(self.rule_files as i64))
            .set("knobs", J::Str(format!("{:?}", self.knobs)))
            .set("ops", J::Arr(self.ops.iter().map(|o| o.to_j()).collect()))
    }
}

/* Split a rule list over n files (ruler concatenates them). */
pub fn split_rules(rules : &[SRule], packed : u8) -> Vec<String>
{
    let bundled = packed / 10 == 1;
    if packed % 10 <= 1
    {
        return vec![render_rules_style(rules, bundled)];
    }
    let mid = (rules.len() + 1) / 2;
    vec![render_rules_style(&rules[..mid], bundled), render_rules_style(&rules[mid..], bundled)]
}
