// util.rs — PRNG, independent SHA-256 + base-62, tiny JSON writer, hex, hashing helpers.
// Nothing in here calls into ruler: audits of cache names must not share code with ticket.rs.

use std::fmt::Write as FmtWrite;

// ---------------------------------------------------------------- PRNG (splitmix64 / xoshiro-like)

#[derive(Clone, Debug)]
pub struct Rng
{
    s : u64,
}

impl Rng
{
    pub fn new(seed : u64) -> Rng
    {
        let mut r = Rng{ s : seed ^ 0x9E37_79B9_7F4A_7C15 };
        r.next();
        r.next();
        r
    }

    /* Derive an independent stream from this seed and a label; does not advance self. */
    pub fn derive(seed : u64, label : u64) -> Rng
    {
        Rng::new(mix64(seed ^ mix64(label.wrapping_add(0x1234_5678_9abc_def1))))
    }

    pub fn next(&mut self) -> u64
    {
        self.s = self.s.wrapping_add(0x9E37_79B9_7F4A_7C15);
        mix64(self.s)
    }

    pub fn below(&mut self, n : u64) -> u64
    {
        if n == 0 { return 0; }
        self.next() % n
    }

    pub fn range(&mut self, lo : usize, hi_inclusive : usize) -> usize
    {
        lo + self.below((hi_inclusive - lo + 1) as u64) as usize
    }

    pub fn chance(&mut self, num : u64, den : u64) -> bool
    {
        self.below(den) < num
    }

    pub fn pick<'a, T>(&mut self, v : &'a [T]) -> &'a T
    {
        &v[self.below(v.len() as u64) as usize]
    }

    pub fn shuffle<T>(&mut self, v : &mut Vec<T>)
    {
        let n = v.len();
        for i in (1..n).rev()
        {
            let j = self.below((i + 1) as u64) as usize;
            v.swap(i, j);
        }
    }
}

pub fn mix64(mut z : u64) -> u64
{
    z = (z ^ (z >> 30)).wrapping_mul(0xBF58_476D_1CE4_E5B9);
    z = (z ^ (z >> 27)).wrapping_mul(0x94D0_49BB_1331_11EB);
    z ^ (z >> 31)
}

/* FNV-1a style incremental hasher with a strong finaliser; deterministic across processes. */
#[derive(Clone)]
pub struct H64(pub u64);

impl H64
{
    pub fn new() -> H64 { H64(0xcbf2_9ce4_8422_2325) }
    pub fn bytes(&mut self, b : &[u8]) -> &mut H64
    {
        for x in b
        {
            self.0 ^= *x as u64;
            self.0 = self.0.wrapping_mul(0x0000_0100_0000_01B3);
        }
        self.0 = mix64(self.0 ^ (b.len() as u64));
        self
    }
    pub fn str(&mut self, s : &str) -> &mut H64 { self.bytes(s.as_bytes()) }
    pub fn u64(&mut self, v : u64) -> &mut H64 { self.0 = mix64(self.0 ^ mix64(v.wrapping_add(0x51))); self }
    pub fn get(&self) -> u64 { mix64(self.0) }
}

// ---------------------------------------------------------------- SHA-256 (FIPS 180-4), own implementation

const K256 : [u32; 64] = [
    0x428a2f98, 0x71374491, 0xb5c0fbcf, 0xe9b5dba5, 0x3956c25b, 0x59f111f1, 0x923f82a4, 0xab1c5ed5,
    0xd807aa98, 0x12835b01, 0x243185be, 0x550c7dc3, 0x72be5d74, 0x80deb1fe, 0x9bdc06a7, 0xc19bf174,
    0xe49b69c1, 0xefbe4786, 0x0fc19dc6, 0x240ca1cc, 0x2de92c6f, 0x4a7484aa, 0x5cb0a9dc, 0x76f988da,
    0x983e5152, 0xa831c66d, 0xb00327c8, 0xbf597fc7, 0xc6e00bf3, 0xd5a79147, 0x06ca6351, 0x14292967,
    0x27b70a85, 0x2e1b2138, 0x4d2c6dfc, 0x53380d13, 0x650a7354, 0x766a0abb, 0x81c2c92e, 0x92722c85,
    0xa2bfe8a1, 0xa81a664b, 0xc24b8b70, 0xc76c51a3, 0xd192e819, 0xd6990624, 0xf40e3585, 0x106aa070,
    0x19a4c116, 0x1e376c08, 0x2748774c, 0x34b0bcb5, 0x391c0cb3, 0x4ed8aa4a, 0x5b9cca4f, 0x682e6ff3,
    0x748f82ee, 0x78a5636f, 0x84c87814, 0x8cc70208, 0x90befffa, 0xa4506ceb, 0xbef9a3f7, 0xc67178f2,
];

pub fn sha256(data : &[u8]) -> [u8; 32]
{
    let mut h : [u32; 8] = [
        0x6a09e667, 0xbb67ae85, 0x3c6ef372, 0xa54ff53a, 0x510e527f, 0x9b05688c, 0x1f83d9ab, 0x5be0cd19];

    let mut msg = data.to_vec();
    let bit_len = (data.len() as u64).wrapping_mul(8);
    msg.push(0x80);
    while msg.len() % 64 != 56
    {
        msg.push(0);
    }
    msg.extend_from_slice(&bit_len.to_be_bytes());

    for block in msg.chunks(64)
    {
        let mut w = [0u32; 64];
        for i in 0..16
        {
            w[i] = u32::from_be_bytes([block[4*i], block[4*i+1], block[4*i+2], block[4*i+3]]);
        }
        for i in 16..64
        {
            let s0 = w[i-15].rotate_right(7) ^ w[i-15].rotate_right(18) ^ (w[i-15] >> 3);
            let s1 = w[i-2].rotate_right(17) ^ w[i-2].rotate_right(19) ^ (w[i-2] >> 10);
            w[i] = w[i-16].wrapping_add(s0).wrapping_add(w[i-7]).wrapping_add(s1);
        }
        let (mut a, mut b, mut c, mut d, mut e, mut f, mut g, mut hh) =
            (h[0], h[1], h[2], h[3], h[4], h[5], h[6], h[7]);
        for i in 0..64
        {
            let s1 = e.rotate_right(6) ^ e.rotate_right(11) ^ e.rotate_right(25);
            let ch = (e & f) ^ ((!e) & g);
            let t1 = hh.wrapping_add(s1).wrapping_add(ch).wrapping_add(K256[i]).wrapping_add(w[i]);
            let s0 = a.rotate_right(2) ^ a.rotate_right(13) ^ a.rotate_right(22);
            let maj = (a & b) ^ (a & c) ^ (b & c);
            let t2 = s0.wrapping_add(maj);
            hh = g; g = f; f = e; e = d.wrapping_add(t1);
            d = c; c = b; b = a; a = t1.wrapping_add(t2);
        }
        h[0] = h[0].wrapping_add(a); h[1] = h[1].wrapping_add(b);
        h[2] = h[2].wrapping_add(c); h[3] = h[3].wrapping_add(d);
        h[4] = h[4].wrapping_add(e); h[5] = h[5].wrapping_add(f);
        h[6] = h[6].wrapping_add(g); h[7] = h[7].wrapping_add(hh);
    }

    let mut out = [0u8; 32];
    for i in 0..8
    {
        out[4*i..4*i+4].copy_from_slice(&h[i].to_be_bytes());
    }
    out
}

/* base-62 of a 256-bit little-endian integer, least significant digit first, padded with '0'
   to 43 characters; alphabet 0-9 a-z A-Z.  Written from the format description, by long division. */
pub fn base62_le(bytes : &[u8; 32]) -> String
{
    let mut out = base62_digits(&bytes[..]);
    while out.len() < 43
    {
        out.push(b'0');
    }
    String::from_utf8(out).unwrap()
}

const ALPHABET62 : &[u8; 62] = b"0123456789abcdefghijklmnopqrstuvwxyzABCDEFGHIJKLMNOPQRSTUVWXYZ";

/* base-62 digits (least significant first, no padding) of a little-endian integer of any length */
pub fn base62_digits(bytes_le : &[u8]) -> Vec<u8>
{
    // big-endian digit vector of the little-endian number
    let mut num : Vec<u32> = bytes_le.iter().rev().map(|b| *b as u32).collect();
    let mut out = Vec::new();
    loop
    {
        while num.len() > 0 && num[0] == 0
        {
            num.remove(0);
        }
        if num.len() == 0
        {
            break;
        }
        let mut rem = 0u32;
        let mut quotient = Vec::with_capacity(num.len());
        for d in num.iter()
        {
            let cur = rem * 256 + *d;
            quotient.push(cur / 62);
            rem = cur % 62;
        }
        out.push(ALPHABET62[rem as usize]);
        num = quotient;
    }
    out
}

/* little-endian bytes of the integer a base-62 name (least significant digit first) denotes */
pub fn base62_value_le(name : &str) -> Option<Vec<u8>>
{
    let mut value : Vec<u8> = vec![];     // little-endian
    for c in name.bytes().rev()
    {
        let d = ALPHABET62.iter().position(|a| *a == c)? as u32;
        // value = value * 62 + d
        let mut carry = d;
        for b in value.iter_mut()
        {
            let cur = (*b as u32) * 62 + carry;
            *b = (cur & 0xff) as u8;
            carry = cur >> 8;
        }
        while carry > 0
        {
            value.push((carry & 0xff) as u8);
            carry >>= 8;
        }
    }
    Some(value)
}

/* The 43-character name of (value of `name`) + 2^256, when that still fits 43 digits: a string
   that is NOT a valid encoding (value too large) but differs from a valid one only by 2^256. */
pub fn alias_beyond_256_bits(name : &str) -> Option<String>
{
    let mut v = base62_value_le(name)?;
    v.resize(33, 0);
    if v[32] != 0 { return None; }
    v[32] = 1;
    let digits = base62_digits(&v);
    if digits.len() == 43 { String::from_utf8(digits).ok() } else { None }
}

pub fn cache_name_of(content : &[u8]) -> String
{
    base62_le(&sha256(content))
}

// ---------------------------------------------------------------- hex

pub fn hex(data : &[u8]) -> String
{
    let mut s = String::with_capacity(data.len() * 2);
    for b in data
    {
        write!(s, "{:02x}", b).unwrap();
    }
    s
}

pub fn unhex(s : &str) -> Option<Vec<u8>>
{
    let b = s.as_bytes();
    if b.len() % 2 != 0 { return None; }
    let mut out = Vec::with_capacity(b.len() / 2);
    for i in (0..b.len()).step_by(2)
    {
        let hi = (b[i] as char).to_digit(16)?;
        let lo = (b[i+1] as char).to_digit(16)?;
        out.push((hi * 16 + lo) as u8);
    }
    Some(out)
}

/* Printable rendering of file content for samples and replay explanations. */
pub fn show_bytes(data : &[u8]) -> String
{
    match std::str::from_utf8(data)
    {
        Ok(s) if s.chars().all(|c| !c.is_control()) && s.len() <= 80 => format!("{:?}", s),
        _ =>
        {
            if data.len() <= 48 { format!("hex:{}", hex(data)) }
            else { format!("hex:{}..({} bytes)", hex(&data[..48]), data.len()) }
        }
    }
}

// ---------------------------------------------------------------- JSON (writer + minimal reader)

#[derive(Clone, Debug, PartialEq)]
pub enum J
{
    Null,
    Bool(bool),
    Int(i64),
    Num(f64),
    Str(String),
    Arr(Vec<J>),
    Obj(Vec<(String, J)>),
}

impl J
{
    pub fn obj() -> J { J::Obj(vec![]) }

    pub fn s(v : &str) -> J { J::Str(v.to_string()) }

    pub fn set(mut self, key : &str, val : J) -> J
    {
        if let J::Obj(ref mut v) = self
        {
            v.push((key.to_string(), val));
        }
        self
    }

    pub fn put(&mut self, key : &str, val : J)
    {
        if let J::Obj(ref mut v) = self
        {
            v.push((key.to_string(), val));
        }
    }

    pub fn get(&self, key : &str) -> Option<&J>
    {
        if let J::Obj(v) = self
        {
            for (k, val) in v.iter()
            {
                if k == key { return Some(val); }
            }
        }
        None
    }

    pub fn as_str(&self) -> Option<&str>
    {
        if let J::Str(s) = self { Some(s) } else { None }
    }

    pub fn strs(v : &[String]) -> J
    {
        J::Arr(v.iter().map(|s| J::Str(s.clone())).collect())
    }

    pub fn to_string(&self) -> String
    {
        let mut out = String::new();
        self.write(&mut out);
        out
    }

    fn write(&self, out : &mut String)
    {
        match self
        {
            J::Null => out.push_str("null"),
            J::Bool(b) => out.push_str(if *b { "true" } else { "false" }),
            J::Int(i) => { write!(out, "{}", i).unwrap(); },
            J::Num(f) =>
            {
                if f.is_finite() { write!(out, "{}", f).unwrap(); } else { out.push_str("null"); }
            },
            J::Str(s) => write_json_str(out, s),
            J::Arr(v) =>
            {
                out.push('[');
                for (i, x) in v.iter().enumerate()
                {
                    if i > 0 { out.push(','); }
                    x.write(out);
                }
                out.push(']');
            },
            J::Obj(v) =>
            {
                out.push('{');
                for (i, (k, x)) in v.iter().enumerate()
                {
                    if i > 0 { out.push(','); }
                    write_json_str(out, k);
                    out.push(':');
                    x.write(out);
                }
                out.push('}');
            },
        }
    }

    /* Minimal parser: enough for the replay files this harness writes. */
    pub fn parse(text : &str) -> Option<J>
    {
        let b = text.as_bytes();
        let mut pos = 0usize;
        let v = parse_value(b, &mut pos)?;
        skip_ws(b, &mut pos);
        if pos == b.len() { Some(v) } else { None }
    }
}

fn write_json_str(out : &mut String, s : &str)
{
    out.push('"');
    for c in s.chars()
    {
        match c
        {
            '"' => out.push_str("\\\""),
            '\\' => out.push_str("\\\\"),
            '\n' => out.push_str("\\n"),
            '\r' => out.push_str("\\r"),
            '\t' => out.push_str("\\t"),
            c if (c as u32) < 0x20 => { write!(out, "\\u{:04x}", c as u32).unwrap(); },
            c => out.push(c),
        }
    }
    out.push('"');
}

fn skip_ws(b : &[u8], pos : &mut usize)
{
    while *pos < b.len() && (b[*pos] == b' ' || b[*pos] == b'\n' || b[*pos] == b'\r' || b[*pos] == b'\t')
    {
        *pos += 1;
    }
}

fn parse_value(b : &[u8], pos : &mut usize) -> Option<J>
{
    skip_ws(b, pos);
    if *pos >= b.len() { return None; }
    match b[*pos]
    {
        b'n' => { if b[*pos..].starts_with(b"null") { *pos += 4; Some(J::Null) } else { None } },
        b't' => { if b[*pos..].starts_with(b"true") { *pos += 4; Some(J::Bool(true)) } else { None } },
        b'f' => { if b[*pos..].starts_with(b"false") { *pos += 5; Some(J::Bool(false)) } else { None } },
        b'"' => parse_string(b, pos).map(J::Str),
        b'[' =>
        {
            *pos += 1;
            let mut v = vec![];
            skip_ws(b, pos);
            if *pos < b.len() && b[*pos] == b']' { *pos += 1; return Some(J::Arr(v)); }
            loop
            {
                v.push(parse_value(b, pos)?);
                skip_ws(b, pos);
                if *pos >= b.len() { return None; }
                if b[*pos] == b',' { *pos += 1; continue; }
                if b[*pos] == b']' { *pos += 1; return Some(J::Arr(v)); }
                return None;
            }
        },
        b'{' =>
        {
            *pos += 1;
            let mut v = vec![];
            skip_ws(b, pos);
            if *pos < b.len() && b[*pos] == b'}' { *pos += 1; return Some(J::Obj(v)); }
            loop
            {
                skip_ws(b, pos);
                let k = parse_string(b, pos)?;
                skip_ws(b, pos);
                if *pos >= b.len() || b[*pos] != b':' { return None; }
                *pos += 1;
                let val = parse_value(b, pos)?;
                v.push((k, val));
                skip_ws(b, pos);
                if *pos >= b.len() { return None; }
                if b[*pos] == b',' { *pos += 1; continue; }
                if b[*pos] == b'}' { *pos += 1; return Some(J::Obj(v)); }
                return None;
            }
        },
        _ =>
        {
            let start = *pos;
            while *pos < b.len() && (b[*pos] == b'-' || b[*pos] == b'+' || b[*pos] == b'.' || b[*pos] == b'e' || b[*pos] == b'E' || (b[*pos] >= b'0' && b[*pos] <= b'9'))
            {
                *pos += 1;
            }
            let s = std::str::from_utf8(&b[start..*pos]).ok()?;
            if let Ok(i) = s.parse::<i64>() { return Some(J::Int(i)); }
            s.parse::<f64>().ok().map(J::Num)
        },
    }
}

fn parse_string(b : &[u8], pos : &mut usize) -> Option<String>
{
    if *pos >= b.len() || b[*pos] != b'"' { return None; }
    *pos += 1;
    let mut out : Vec<u8> = vec![];
    while *pos < b.len()
    {
        let c = b[*pos];
        *pos += 1;
        match c
        {
            b'"' => return String::from_utf8(out).ok(),
            b'\\' =>
            {
                if *pos >= b.len() { return None; }
                let e = b[*pos];
                *pos += 1;
                match e
                {
                    b'n' => out.push(b'\n'),
                    b'r' => out.push(b'\r'),
                    b't' => out.push(b'\t'),
                    b'u' =>
                    {
                        if *pos + 4 > b.len() { return None; }
                        let h = std::str::from_utf8(&b[*pos..*pos+4]).ok()?;
                        let cp = u32::from_str_radix(h, 16).ok()?;
                        *pos += 4;
                        let ch = char::from_u32(cp)?;
                        let mut buf = [0u8; 4];
                        out.extend_from_slice(ch.encode_utf8(&mut buf).as_bytes());
                    },
                    other => out.push(other),
                }
            },
            other => out.push(other),
        }
    }
    None
}
