use super::*;
pub fn run_one(_cfg : &Config, _seed : u64, _k : u64, _stats : &mut Stats) -> Vec<Found> { vec![] }
pub fn replay_hist(_prop : &str, _case : &Case) -> Vec<(String, String)> { vec![] }
pub fn replay_pair(_case : &Case, _alt : &SchedSpec) -> Vec<(String, String)> { vec![] }
