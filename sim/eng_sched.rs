// eng_sched.rs — schedule fan-out engine (C03, C04, C05, C06): one ruler invocation re-executed
// from the same disk snapshot under many seeded schedules.

use super::*;
use super::super::gen::{make_invalid};
use super::super::hist::{oracle_c01, oracle_c03, oracle_c04, oracle_c05};
use super::super::model::Outcome;
use super::super::rt::Event;

fn k_schedules(prop : &str, thorough : bool) -> usize
{
    match (prop, thorough)
    {
        ("C03", false) | ("C04", false) => 16,
        ("C03", true) | ("C04", true) => 48,
        (_, false) => 24,
        (_, true) => 64,
    }
}

/* strategies that start dependents before producers and delay single threads are over-weighted */
fn sched_for(j : usize, rng : &mut Rng) -> SchedSpec
{
    let seed = rng.next();
    let strategy = match j
    {
        0 => Strategy::Serial,
        1 => Strategy::Reverse,
        _ => match rng.below(10)
        {
            0 | 1 | 2 => Strategy::Starve(10 + rng.below(50) as u8),
            3 | 4 | 5 => Strategy::Pct(1 + rng.below(3) as u8),
            6 | 7 => Strategy::Uniform,
            8 => Strategy::Sticky(40 + rng.below(55) as u8),
            _ => Strategy::Reverse,
        },
    };
    SchedSpec{ strategy, seed }
}

fn gen_cfg(prop : &str, thorough : bool, rng : &mut Rng) -> GenCfg
{
    let mut g = GenCfg::base(thorough);
    g.max_rules = rng.range(2, if thorough { 12 } else { 8 });
    g.max_ops = 4;
    g.min_ops = 0;
    g.end_with_build = false;
    g.goals = rng.chance(1, 2);
    g.exec = rng.chance(1, 3);
    g.rule_edits = rng.chance(1, 3);
    g.failing = rng.chance(1, 4);
    g.missing_leaves = rng.chance(1, 4);
    g.cleans = *rng.pick(&[0u64, 10, 25]);
    match prop
    {
        "C04" => { g.failing = true; g.missing_leaves = rng.chance(1, 2); },
        "C05" => { g.failing = rng.chance(1, 2); g.missing_leaves = rng.chance(1, 2); g.prune_dirs = rng.chance(1, 6); g.dir_at_target = rng.chance(1, 5); },
        "C06" =>
        {
            if rng.chance(1, 3)
            {
                // failures: which rules fail, get cancelled or still get built must not depend on the schedule either
                g.failing = true; g.fail_rate = 8; g.missing_leaves = rng.chance(1, 2); g.goals = true; g.cleans = 10;
            }
            else
            {
                g.twins = true; g.shared_pool = true; g.empty_salts = true; g.cleans = 35; g.failing = rng.chance(1, 6); g.missing_leaves = false;
                g.prune_dirs = rng.chance(1, 4);
            }
        },
        _ => {},
    }
    g
}

/* probe: a cancelled dependent (no file-system activity at all, >= 2 receives) kept listening
   while a later sender had not sent yet — the situation named in wait_for_sources_ticket */
fn probe_late_sender(events : &[Event]) -> bool
{
    // "cancelled": never ran a command and never changed a file (what else a rule thread does before
    // it learns about the cancel — e.g. reading its history — must not matter to the probe)
    let mut recvs : BTreeMap<u16, Vec<(u32, u32)>> = BTreeMap::new();   // tid -> (seq, chan)
    let mut has_fs : BTreeSet<u16> = BTreeSet::new();
    let mut sends : BTreeMap<u32, u32> = BTreeMap::new();               // chan -> seq of send
    for e in events
    {
        match &e.kind
        {
            Ev::Recv{ chan, ok : true } => recvs.entry(e.tid).or_insert(vec![]).push((e.seq, *chan)),
            Ev::Send{ chan, ok : true } => { sends.insert(*chan, e.seq); },
            Ev::Fs{ op, .. } if hist::is_mutating(*op) => { has_fs.insert(e.tid); },
            Ev::CmdStart{..} => { has_fs.insert(e.tid); },
            _ => {},
        }
    }
    for (tid, rs) in recvs.iter()
    {
        if *tid == 0 || has_fs.contains(tid) || rs.len() < 2 { continue; }
        let first = rs[0].0;
        if rs[1..].iter().any(|(_, chan)| sends.get(chan).map(|s| *s > first).unwrap_or(false))
        {
            return true;
        }
    }
    false
}

pub fn check_inv(prop : &str, inv : &Inv, runner : &Runner, stats : Option<&mut Stats>) -> Vec<Violation>
{
    match prop
    {
        "C03" =>
        {
            let (vs, checked) = oracle_c03(inv);
            if let Some(s) = stats
            {
                s.add("c03.command_starts_with_produced_source", checked as u64);
                if checked > 0
                {
                    let mut h = H64::new();
                    h.u64(shape_hash(&inv.rules)).u64(hist::conflict_hash(&inv.res.events));
                    s.distinct.insert(h.get());
                }
            }
            vs
        },
        "C04" =>
        {
            let mut vs = oracle_c04(inv, &runner.failed_last);
            // a build the reference model expects to succeed must also be correct (repaired builds)
            for v in oracle_c01(inv)
            {
                vs.push(Violation{ prop : "C04", sig : v.sig.replace("C01:", "C04:after-repair:"), detail : v.detail });
            }
            if let (Some(s), Ok(m)) = (stats, &inv.model)
            {
                let cancelled = m.outcomes.values().filter(|o| **o == Outcome::Cancelled).count();
                let failing = m.outcomes.values().filter(|o| match o { Outcome::Fails(_) => true, _ => false }).count() + m.missing_leaves.len();
                let independent = m.outcomes.values().filter(|o| match o { Outcome::Built(_) => true, _ => false }).count();
                if inv.is_build && failing > 0
                {
                    s.inc("fault.command_failure_or_missing_leaf");
                    s.add("c04.failing_rules_or_leaves", failing as u64);
                    s.add("c04.cancelled_rules", cancelled as u64);
                    if cancelled > 0 && independent > 0
                    {
                        let mut h = H64::new();
                        h.u64(shape_hash(&inv.rules)).u64(hist::conflict_hash(&inv.res.events));
                        for (i, o) in m.outcomes.iter() { h.u64(*i as u64).u64(match o { Outcome::Built(_) => 0, Outcome::Cancelled => 1, _ => 2 }); }
                        s.distinct.insert(h.get());
                    }
                }
            }
            vs
        },
        "C05" =>
        {
            let vs = oracle_c05(inv);
            if let Some(s) = stats
            {
                if inv.res.threads >= 3
                {
                    let mut h = H64::new();
                    h.u64(shape_hash(&inv.rules)).u64(inv.is_build as u64).u64(hist::conflict_hash(&inv.res.events));
                    s.distinct.insert(h.get());
                }
                if probe_late_sender(&inv.res.events)
                {
                    s.inc("probe.cancelled_dependent_waited_for_late_sender");
                }
                let closed = inv.res.events.iter().filter(|e| match &e.kind { Ev::Send{ ok : false, .. } | Ev::Recv{ ok : false, .. } => true, _ => false }).count();
                if closed > 0 { s.add("probe.send_or_recv_on_closed_channel", closed as u64); }
                if inv.model.is_err() { s.inc("c05.invalid_graph_invocations"); }
            }
            vs
        },
        _ => vec![],
    }
}

/* plain history run with the property's oracle on every invocation: replay and minimisation */
pub fn run_case(prop : &str, case : &Case, mut stats : Option<&mut Stats>) -> Vec<Violation>
{
    let mut runner = Runner::new(case);
    let mut out = vec![];
    while !runner.done()
    {
        if let Some(inv) = runner.step()
        {
            out.extend(check_inv(prop, &inv, &runner, stats.as_deref_mut()));
            runner.absorb(&inv);
        }
    }
    out
}

pub fn replay_hist(prop : &str, case : &Case) -> Vec<(String, String)>
{
    run_case(prop, case, None).into_iter().filter(|v| v.prop == prop).map(|v| (v.sig, v.detail)).collect()
}

/* ---- C06: outcome of one invocation */

#[derive(Clone, PartialEq)]
struct Outcome6
{
    verdict : String,
    workspace : Vec<(String, Vec<u8>, bool)>,
}

fn outcome6(inv : &Inv) -> Outcome6
{
    Outcome6
    {
        verdict : inv.res.verdict.canonical(),
        workspace : inv.after.workspace(&super::super::scen::ruler_dir()).into_iter().map(|(p, (c, x))| (p, (*c).clone(), x)).collect(),
    }
}

fn diff6(a : &Outcome6, b : &Outcome6) -> Option<(String, String)>
{
    if a.verdict != b.verdict
    {
        return Some(("C06:verdict-differs".to_string(), format!("reference schedule: {}; other schedule: {}", a.verdict, b.verdict)));
    }
    let strip = |w : &Vec<(String, Vec<u8>, bool)>| -> Vec<(String, Vec<u8>)> { w.iter().map(|(p, c, _)| (p.clone(), c.clone())).collect() };
    if strip(&a.workspace) != strip(&b.workspace)
    {
        let ma : BTreeMap<&String, (&Vec<u8>, bool)> = a.workspace.iter().map(|(p, c, x)| (p, (c, *x))).collect();
        let mb : BTreeMap<&String, (&Vec<u8>, bool)> = b.workspace.iter().map(|(p, c, x)| (p, (c, *x))).collect();
        for (p, (c, x)) in ma.iter()
        {
            match mb.get(p)
            {
                None => return Some(("C06:file-set-differs".to_string(), format!("{} exists under the reference schedule only", p))),
                Some((c2, x2)) =>
                {
                    if c != c2 { return Some(("C06:content-differs".to_string(), format!("{}: {} under the reference schedule, {} under the other", p, super::super::util::show_bytes(c), super::super::util::show_bytes(c2)))); }
                    // the statement speaks of content; a permission that depends on the schedule is
                    // counted by the caller as a probe (same root cause as the C10 known finding)
                    let _ = (x, x2);
                },
            }
        }
        for p in mb.keys()
        {
            if !ma.contains_key(p) { return Some(("C06:file-set-differs".to_string(), format!("{} exists under the other schedule only", p))); }
        }
    }
    None
}

/* run the history up to (not including) the last op; then that op under `first` and under `second` */
fn pair_run(case : &Case, alt : &SchedSpec) -> Option<(String, String)>
{
    if case.ops.len() == 0 { return None; }
    let mut runner = Runner::new(case);
    let last = case.ops.len() - 1;
    while runner.next_op < last
    {
        if let Some(inv) = runner.step() { runner.absorb(&inv); }
    }
    let (is_build, goal, sched) = match &case.ops[last]
    {
        Op::Build{ goal, sched } => (true, goal.clone(), sched.clone()),
        Op::Clean{ goal, sched } => (false, goal.clone(), sched.clone()),
        _ => return None,
    };
    let snap = runner.world.snapshot();
    let a = runner.invocation(last, is_build, goal.clone(), sched);
    runner.world.restore(&snap);
    let b = runner.invocation(last, is_build, goal, alt.clone());
    if !a.res.verdict.returned() || !b.res.verdict.returned() { return None; }   // C05's business
    diff6(&outcome6(&a), &outcome6(&b))
}

pub fn replay_pair(case : &Case, alt : &SchedSpec) -> Vec<(String, String)>
{
    pair_run(case, alt).into_iter().collect()
}

fn minimize_pair(case : &Case, alt : &SchedSpec, sig : &str) -> (Case, SchedSpec)
{
    // shrink the history with the alternative schedule kept as a policy first, then make it explicit
    let s = sig.to_string();
    let a = alt.clone();
    let test = move |c : &Case| pair_run(c, &a).map(|(x, _)| x == s).unwrap_or(false);
    let small = minimize(case, &test);
    // then shrink the alternative schedule's choice list towards the serial default
    let mut list = match &alt.strategy { Strategy::Record(l) => l.clone(), _ => return (small, alt.clone()) };
    let mut chunk = (list.len() + 1) / 2;
    let mut budget = 300;
    while chunk >= 1 && list.len() > 0 && budget > 0
    {
        let mut start = 0;
        let mut progress = false;
        while start < list.len() && budget > 0
        {
            let end = std::cmp::min(start + chunk, list.len());
            let mut shorter = list.clone();
            shorter.drain(start..end);
            budget -= 1;
            if pair_run(&small, &SchedSpec::record(shorter.clone())).map(|(x, _)| x == sig).unwrap_or(false)
            {
                list = shorter;
                progress = true;
            }
            else
            {
                start = end;
            }
        }
        if chunk == 1 { if !progress { break; } } else { chunk = (chunk + 1) / 2; }
    }
    (small, SchedSpec::record(list))
}

pub fn run_one(cfg : &Config, seed : u64, k : u64, stats : &mut Stats) -> Vec<Found>
{
    let prop = cfg.prop.as_str();
    let mut rng = Rng::derive(seed, 2);
    let c06_epochs = prop == "C06" && rng.chance(1, 2);
    let gcfg = if c06_epochs { epoch_gen_cfg(cfg.thorough, &mut rng) } else { gen_cfg(prop, cfg.thorough, &mut rng) };
    let mut gen = Gen::new(seed, gcfg);
    let mut case = gen.case();
    if c06_epochs
    {
        // equal contents made by *different* sources, moved in and out of the cache by edits and reverts
        stats.inc("c06.epoch_mode_scenarios");
        let leaves = gen.leaf_names();
        let targets : Vec<String> = gen.current_rules().iter().flat_map(|r| r.targets.clone()).collect();
        let epochs = rng.range(2, if cfg.thorough { 6 } else { 4 });
        let clean_one_in = *rng.pick(&[0u64, 4, 8]);
        case.ops = epoch_ops(&mut rng, &leaves, &targets, epochs, clean_one_in, None);
        // the last edits of the history; the victim build below follows them
        for l in leaves.iter()
        {
            if rng.chance(3, 5) { case.ops.push(Op::Write{ path : l.clone(), content : rng.pick(&[b"A".to_vec(), b"B".to_vec()]).clone() }); }
        }
    }
    // C06: the three-party situation — several rules want one shared cache file back while another
    // rule's target, holding the very same bytes, has to be moved out of the way into the cache
    if prop == "C06" && !c06_epochs && rng.chance(1, 3)
    {
        let rules_now = gen.current_rules();
        let files_now = gen.current_files();
        let reader = move |p : &str| files_now.get(p).cloned();
        if let Ok(m) = super::super::model::evaluate(&rules_now, None, &reader)
        {
            let mut by_content : BTreeMap<Vec<u8>, Vec<String>> = BTreeMap::new();
            for o in m.outcomes.values()
            {
                if let Outcome::Built(ts) = o { for (t, b, _) in ts.iter() { by_content.entry(b.clone()).or_insert(vec![]).push(t.clone()); } }
            }
            let shared : Vec<(Vec<u8>, Vec<String>)> = by_content.iter().filter(|(_, ts)| ts.len() >= 2).map(|(c, ts)| (c.clone(), ts.clone())).collect();
            let all_targets : Vec<String> = by_content.values().flatten().cloned().collect();
            if shared.len() > 0
            {
                let (content, owners) = rng.pick(&shared).clone();
                let others : Vec<String> = all_targets.into_iter().filter(|t| !owners.contains(t)).collect();
                if others.len() > 0
                {
                    stats.inc("c06.three_party_scenarios");
                    case.ops.push(Op::Build{ goal : None, sched : SchedSpec::random(&mut rng) });
                    case.ops.push(Op::Clean{ goal : None, sched : SchedSpec::random(&mut rng) });
                    let n = 1 + rng.below(2) as usize;
                    for _ in 0..n
                    {
                        case.ops.push(Op::Write{ path : rng.pick(&others).clone(), content : content.clone() });
                    }
                }
            }
        }
    }
    // C05: a storage fault on a state file before the victim (the call must still return a value)
    if prop == "C05" && case.ops.iter().any(|o| o.is_invocation()) && rng.chance(1, 6)
    {
        let keep = if rng.chance(1, 2) { Some(rng.below(40) as u32) } else { None };
        case.ops.push(Op::DamageState{ table : rng.chance(1, 3), pick : rng.below(8) as u32, keep : keep });
        stats.inc("fault.damaged_state_file_before_victim");
    }

    // C05: a share of graphs is deliberately invalid
    let mut invalid = "";
    if prop == "C05" && rng.chance(1, 8)
    {
        invalid = make_invalid(&mut rng, &mut case.rules);
    }

    // the victim invocation
    let victim_is_clean = match prop { "C05" => rng.chance(1, 4), _ => false };
    let goal = if rng.chance(if prop == "C06" { 2 } else { 1 }, 4) { let ts : Vec<String> = gen.current_rules().iter().flat_map(|r| r.targets.clone()).collect(); if ts.len() > 0 { Some(rng.pick(&ts).clone()) } else { None } } else { None };
    let victim = case.ops.len();
    case.ops.push(if victim_is_clean { Op::Clean{ goal : goal, sched : SchedSpec::serial() } } else { Op::Build{ goal : goal, sched : SchedSpec::serial() } });

    // C04: follow-up history — build again unrepaired, repair, build again
    if prop == "C04"
    {
        case.ops.push(Op::Build{ goal : None, sched : SchedSpec::random(&mut rng) });
        // repair: make every leaf exist with harmless content and drop fail lines / add missing emits
        let files = gen.current_files();
        for leaf in gen.leaf_names()
        {
            let c = files.get(&leaf).cloned().unwrap_or(b"FAIL".to_vec());
            if c.windows(4).any(|w| w == b"FAIL") || !files.contains_key(&leaf)
            {
                case.ops.push(Op::Write{ path : leaf.clone(), content : format!("{}#r", leaf).into_bytes() });
            }
        }
        let mut repaired = gen.current_rules();
        for r in repaired.iter_mut()
        {
            r.lines.retain(|l| match l { Line::Fail => false, _ => true });
            for t in r.targets.clone()
            {
                if !r.lines.iter().any(|l| match l { Line::Emit{ target, .. } => *target == t, _ => false })
                {
                    let input = r.sources[0].clone();
                    r.lines.push(Line::Emit{ target : t, salt : "r".to_string(), inputs : vec![input], exec : false });
                }
            }
        }
        case.ops.push(Op::SetRules{ rules : repaired.clone() });
        case.ops.push(Op::Build{ goal : None, sched : SchedSpec::random(&mut rng) });
        // one more failure kind after everything has been built: the command of a multi-target rule
        // is edited so that it no longer generates one of its declared targets (whose old file is
        // still lying there); the build must say so, and say so again when repeated
        let multi : Vec<usize> = repaired.iter().enumerate().filter(|(_, r)| r.targets.len() >= 2 && r.lines.len() >= 2).map(|(i, _)| i).collect();
        if multi.len() > 0 && rng.chance(2, 3)
        {
            let mut broken = repaired.clone();
            let r = *rng.pick(&multi);
            let li = rng.below(broken[r].lines.len() as u64) as usize;
            broken[r].lines.remove(li);
            if rng.chance(1, 2)
            {
                let leaves = gen.leaf_names();
                if leaves.len() > 0 { let l = rng.pick(&leaves).clone(); case.ops.push(Op::Write{ path : l.clone(), content : format!("{}#e", l).into_bytes() }); }
            }
            case.ops.push(Op::SetRules{ rules : broken });
            case.ops.push(Op::Build{ goal : None, sched : SchedSpec::random(&mut rng) });
            case.ops.push(Op::Build{ goal : None, sched : SchedSpec::random(&mut rng) });
        }
    }

    if k < 3 * cfg.workers { stats.sample(case.to_j().set("victim_op", J::Int(victim as i64)).set("invalid", J::s(invalid))); }

    let mut found : Vec<Found> = vec![];
    let mut runner = Runner::new(&case);
    let mut raw : Vec<(Violation, Case)> = vec![];

    // pre-history
    while runner.next_op < victim
    {
        let op = runner.case.ops[runner.next_op].clone();
        match runner.step()
        {
            Some(inv) =>
            {
                let name = match &op { Op::Build{ sched, .. } | Op::Clean{ sched, .. } => sched.name(), _ => "" };
                stats.note_invocation(&inv, name);
                for v in check_inv(prop, &inv, &runner, Some(stats))
                {
                    let mut c = case.clone();
                    c.ops.truncate(inv.op_index + 1);
                    raw.push((v, c));
                }
                runner.absorb(&inv);
            },
            None => stats.inc(&format!("userop.{}", op.kind())),
        }
    }

    // fan-out
    let snap = runner.world.snapshot();
    let (is_build, vgoal) = match &case.ops[victim] { Op::Build{ goal, .. } => (true, goal.clone()), Op::Clean{ goal, .. } => (false, goal.clone()), _ => (true, None) };
    let kk = k_schedules(prop, cfg.thorough);
    let mut reference : Option<(Outcome6, SchedSpec)> = None;
    let mut last_inv : Option<Inv> = None;
    let mut c06_equal_contents = false;
    for j in 0..kk
    {
        runner.world.restore(&snap);
        let sched = sched_for(j, &mut rng);
        let inv = runner.invocation(victim, is_build, vgoal.clone(), sched.clone());
        stats.note_invocation(&inv, sched.name());
        if invalid != "" { stats.inc(&format!("c05.invalid.{}", invalid)); }

        let mut replay_case = case.clone();
        replay_case.ops.truncate(victim + 1);
        set_sched(&mut replay_case.ops[victim], SchedSpec::record(inv.res.record.clone()));

        if prop == "C06"
        {
            if j == 0
            {
                if let Ok(m) = &inv.model
                {
                    let mut contents : Vec<&Vec<u8>> = m.outcomes.values().flat_map(|o| match o { Outcome::Built(ts) => ts.iter().map(|(_, b, _)| b).collect::<Vec<_>>(), _ => vec![] }).collect();
                    let n = contents.len();
                    contents.sort();
                    contents.dedup();
                    c06_equal_contents = contents.len() < n;
                }
            }
            if inv.res.verdict.returned()
            {
                let o = outcome6(&inv);
                match &reference
                {
                    None => reference = Some((o, SchedSpec::record(inv.res.record.clone()))),
                    Some((r, rsched)) =>
                    {
                        if r.workspace != o.workspace && diff6(r, &o).is_none()
                        {
                            stats.inc("probe.exec_bit_depends_on_schedule");
                        }
                        if let Some((sig, detail)) = diff6(r, &o)
                        {
                            let mut c = replay_case.clone();
                            set_sched(&mut c.ops[victim], rsched.clone());
                            let alt = SchedSpec::record(inv.res.record.clone());
                            if !found.iter().any(|f : &Found| f.sig == sig) && stats.reported.insert(sig.clone())
                            {
                                let (small, alt2) = minimize_pair(&c, &alt, &sig);
                                let d = pair_run(&small, &alt2).map(|(_, d)| d).unwrap_or(detail);
                                found.push(Found
                                {
                                    prop : "C06".to_string(),
                                    sig : sig,
                                    detail : d,
                                    explain : small.to_j().set("alternative_schedule_of_last_op", super::super::scen::sched_to_j(&alt2)),
                                    replay : Replay::Pair{ case : small, alt : alt2 },
                                });
                            }
                        }
                    },
                }
            }
            if c06_equal_contents
            {
                let mut h = H64::new();
                h.u64(shape_hash(&inv.rules)).u64(ops_hash(&case.ops[..victim])).u64(hist::conflict_hash(&inv.res.events));
                stats.distinct.insert(h.get());
            }
        }
        else
        {
            for v in check_inv(prop, &inv, &runner, Some(stats))
            {
                raw.push((v, replay_case.clone()));
            }
        }
        last_inv = Some(inv);
    }
    if prop == "C06" && c06_equal_contents { stats.inc("c06.prestates_with_equal_contents"); }

    // follow-up history continues from the state the last schedule left
    if let Some(inv) = last_inv
    {
        let last_record = inv.res.record.clone();
        runner.next_op = victim + 1;
        runner.absorb(&inv);
        while !runner.done()
        {
            let op = runner.case.ops[runner.next_op].clone();
            match runner.step()
            {
                Some(inv2) =>
                {
                    let name = match &op { Op::Build{ sched, .. } | Op::Clean{ sched, .. } => sched.name(), _ => "" };
                    stats.note_invocation(&inv2, name);
                    for v in check_inv(prop, &inv2, &runner, Some(stats))
                    {
                        let mut c = case.clone();
                        c.ops.truncate(inv2.op_index + 1);
                        set_sched(&mut c.ops[victim], SchedSpec::record(last_record.clone()));
                        raw.push((v, c));
                    }
                    runner.absorb(&inv2);
                },
                None => stats.inc(&format!("userop.{}", op.kind())),
            }
        }
    }
    stats.end_run();

    // minimise and package (one per signature)
    let mut seen = BTreeSet::new();
    for (v, c) in raw
    {
        if v.prop != prop || !seen.insert(v.sig.clone()) || !stats.reported.insert(v.sig.clone()) { continue; }
        let explicit = explicit_schedules(&c);
        let base = if run_case(prop, &explicit, None).iter().any(|x| x.sig == v.sig) { explicit } else { c.clone() };
        if !run_case(prop, &base, None).iter().any(|x| x.sig == v.sig)
        {
            // cannot be reproduced as a plain history: report unminimised; the driver will flag it
            found.push(Found{ prop : prop.to_string(), sig : v.sig.clone(), detail : format!("NOT REPRODUCED AS HISTORY: {}", v.detail), explain : c.to_j(), replay : Replay::Hist{ prop : prop.to_string(), case : c } });
            continue;
        }
        let sig = v.sig.clone();
        let p = prop.to_string();
        let test = move |cand : &Case| run_case(&p, cand, None).iter().any(|x| x.sig == sig);
        let small = minimize(&base, &test);
        let detail = run_case(prop, &small, None).into_iter().find(|x| x.sig == v.sig).map(|x| x.detail).unwrap_or(v.detail.clone());
        found.push(Found{ prop : prop.to_string(), sig : v.sig.clone(), detail : detail, explain : small.to_j(), replay : Replay::Hist{ prop : prop.to_string(), case : small } });
    }
    found
}
