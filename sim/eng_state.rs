// eng_state.rs — C16: the read side of storage faults.  Real writers put rule histories and
// file-state tables on the simulated disk (short writes), faults are applied to the stored
// bytes (strict prefixes, bit flips, garbage), real readers read them back (short reads).

use super::*;
use std::panic::{self, AssertUnwindSafe};

use crate::blob::{FileState, FileStateVec};
use crate::current::CurrentFileStates;
use crate::history::{History, RuleHistory};
use crate::ticket::{Ticket, TicketFactory};
use super::super::simsys::{World, SimSystem};
use super::super::scen::ruler_dir;

const HDIR : &str = "hist";
const TABLE : &str = "table";

fn ticket(rng : &mut Rng) -> Ticket
{
    TicketFactory::from_str(&format!("t{}", rng.next())).result()
}

fn world(read_chunk : usize, write_chunk : usize) -> World
{
    let mut k = Knobs::default();
    k.read_chunk = read_chunk;
    k.write_chunk = write_chunk;
    let w = World::new(k, &ruler_dir());
    w.user_mkdir(HDIR);
    w
}

// ---- instances

struct HistInstance
{
    rule : Ticket,
    keys : Vec<Ticket>,
    /* the harness's own list of what was recorded */
    pairs : Vec<(Ticket, FileStateVec)>,
    value : RuleHistory,
}

/* `min_bytes` > 0: a long-lived rule, enough remembered source states for a file of at least that size */
fn gen_history(rng : &mut Rng, min_bytes : usize) -> HistInstance
{
    let mut n = match rng.below(6) { 0 => 0, 1 => 1, 2 => rng.range(2, 5), _ => rng.range(0, 50) };
    let mut rh = RuleHistory::new();
    let mut keys = vec![];
    let mut pairs = vec![];
    let n_targets = rng.range(1, 8);
    if min_bytes > 0 { n = min_bytes / (40 + 41 * n_targets) + 2; }
    for _ in 0..n
    {
        let k = ticket(rng);
        let v = FileStateVec::from_ticket_vec((0..n_targets).map(|_| ticket(rng)).collect());
        rh.insert(k.clone(), v.clone()).unwrap();
        pairs.push((k.clone(), v));
        keys.push(k);
    }
    HistInstance{ rule : ticket(rng), keys : keys, pairs : pairs, value : rh }
}

struct TableInstance
{
    entries : Vec<(String, FileState)>,
}

fn gen_path(rng : &mut Rng) -> String
{
    match rng.below(6)
    {
        0 => format!("out/{}.o", rng.below(1000)),
        1 => format!("d\u{e9}p\u{f4}t/\u{6587}\u{4ef6}{}", rng.below(1000)),
        2 => format!("{}/{}", "long".repeat(rng.range(1, 40)), rng.below(1000)),
        3 => format!("with space {}", rng.below(1000)),
        _ => format!("t{}", rng.below(100000)),
    }
}

fn gen_table(rng : &mut Rng, min_bytes : usize) -> TableInstance
{
    let mut n = match rng.below(6) { 0 => 0, 1 => 1, 2 => rng.range(2, 5), _ => rng.range(0, 50) };
    if min_bytes > 0 { n = min_bytes / 50 + 2; }
    let mut entries : BTreeMap<String, FileState> = BTreeMap::new();
    for _ in 0..n
    {
        let ts = match rng.below(4) { 0 => 0, 1 => u64::MAX, 2 => rng.next(), _ => 1_000_000 + rng.below(1_000_000) };
        entries.insert(gen_path(rng), FileState{ ticket : ticket(rng), timestamp : ts, executable : rng.chance(1, 2) });
    }
    TableInstance{ entries : entries.into_iter().collect() }
}

// ---- write with the real writers, read with the real readers

fn write_history(w : &World, inst : &HistInstance) -> Result<Vec<u8>, String>
{
    let mut h = History::new(w.system(), HDIR);
    h.write_rule_history(inst.rule.clone(), inst.value.clone()).map_err(|e| format!("{}", e))?;
    let path = format!("{}/{}", HDIR, inst.rule);
    w.read(&path).map(|a| (*a).clone()).ok_or("history file missing after write".to_string())
}

fn read_history(w : &World, rule : &Ticket) -> Result<RuleHistory, String>
{
    let h : History<SimSystem> = History::new(w.system(), HDIR);
    h.read_rule_history(rule).map_err(|e| format!("{}", e))
}

fn write_table(w : &World, inst : &TableInstance) -> Result<Vec<u8>, String>
{
    let mut t = CurrentFileStates::from_file(w.system(), TABLE.to_string()).map_err(|e| format!("{}", e))?;
    for (p, s) in inst.entries.iter()
    {
        t.insert_file_state(p.clone(), s.clone());
    }
    t.to_file().map_err(|e| format!("{}", e))?;
    w.read(TABLE).map(|a| (*a).clone()).ok_or("table file missing after write".to_string())
}

/* read the table and project it on `paths` */
fn read_table(w : &World, paths : &[String]) -> Result<Vec<(String, FileState)>, String>
{
    let mut t = CurrentFileStates::from_file(w.system(), TABLE.to_string()).map_err(|e| format!("{}", e))?;
    let blob = t.take_blob(paths.to_vec());
    Ok(blob.get_file_infos().into_iter().map(|i| (i.path, i.file_state)).collect())
}

#[derive(Debug, PartialEq)]
enum ReadOutcome
{
    Rejected,
    AcceptedSame,
    AcceptedDifferent,
    Panicked(String),
}

fn read_back(kind : &str, w : &World, bytes : &[u8], hist : Option<&HistInstance>, table : Option<&TableInstance>, rule_for_garbage : &Ticket) -> ReadOutcome
{
    let r = panic::catch_unwind(AssertUnwindSafe(||
    {
        if kind == "history"
        {
            let rule = hist.map(|h| h.rule.clone()).unwrap_or(rule_for_garbage.clone());
            w.user_write(&format!("{}/{}", HDIR, rule), bytes);
            match read_history(w, &rule)
            {
                Err(_) => ReadOutcome::Rejected,
                Ok(v) => match hist
                {
                    Some(h) if v == h.value && h.keys.iter().all(|k| v.get_file_state_vec(k) == h.value.get_file_state_vec(k))
                        && h.pairs.iter().all(|(k, want)| v.get_file_state_vec(k) == Some(want)) => ReadOutcome::AcceptedSame,
                    _ => ReadOutcome::AcceptedDifferent,
                },
            }
        }
        else
        {
            w.user_write(TABLE, bytes);
            let paths : Vec<String> = table.map(|t| t.entries.iter().map(|(p, _)| p.clone()).collect()).unwrap_or(vec![]);
            match read_table(w, &paths)
            {
                Err(_) => ReadOutcome::Rejected,
                Ok(v) => match table
                {
                    Some(t) if v == t.entries => ReadOutcome::AcceptedSame,
                    _ => ReadOutcome::AcceptedDifferent,
                },
            }
        }
    }));
    match r
    {
        Ok(o) => o,
        Err(p) =>
        {
            let msg = if let Some(s) = p.downcast_ref::<&str>() { s.to_string() } else if let Some(s) = p.downcast_ref::<String>() { s.clone() } else { "?".to_string() };
            ReadOutcome::Panicked(msg)
        },
    }
}

fn size_class(n : usize) -> &'static str
{
    if n <= 8 { "empty" } else if n <= 400 { "small" } else { "large" }
}

fn pos_class(pos : usize, len : usize) -> &'static str
{
    if pos < 8 { "length-prefix" } else if pos < 72 { "first-entry" } else if pos + 16 >= len { "tail" } else { "middle" }
}

fn found(sig : String, detail : String, explain : J, replay : Replay) -> Found
{
    Found{ prop : "C16".to_string(), sig : sig, detail : detail, explain : explain, replay : replay }
}

pub fn replay_bytes(kind : &str, bytes : &Vec<u8>, expect_reject : bool, read_chunk : u32) -> Vec<(String, String)>
{
    let w = world(read_chunk as usize, 0);
    let rule = TicketFactory::from_str("replay").result();
    let o = read_back(kind, &w, bytes, None, None, &rule);
    let mut out = vec![];
    match o
    {
        ReadOutcome::Panicked(m) => out.push((format!("C16:panic:{}", kind), format!("reading {} bytes of {} panicked: {}", bytes.len(), kind, m))),
        ReadOutcome::Rejected => {},
        _ => if expect_reject { out.push((format!("C16:strict-prefix-accepted:{}", kind), format!("a strict prefix ({} bytes) of a valid {} file was accepted", bytes.len(), kind))); },
    }
    out
}

pub fn replay_round_trip(kind : &str, seed : u64) -> Vec<(String, String)>
{
    let mut stats = Stats::new();
    one_instance(kind, seed, false, &mut stats).into_iter().map(|f| (f.sig, f.detail)).collect()
}

fn one_instance(kind : &str, seed : u64, with_faults : bool, stats : &mut Stats) -> Vec<Found>
{
    let mut out = vec![];
    let mut rng = Rng::new(seed);
    let read_chunk = *rng.pick(&[0usize, 1, 7, 255, 256, 257]);
    let write_chunk = *rng.pick(&[0usize, 1, 3, 16, 64]);
    let w = world(read_chunk, write_chunk);
    let garbage_rule = TicketFactory::from_str("garbage").result();

    // one instance in 40 is a state file of a long-lived workspace: just beyond 64 KiB, 1 MiB or (rarely) 16 MiB
    let min_bytes = if rng.chance(1, 40) { stats.inc("c16.large_instances"); match rng.below(16) { 0 => 1usize << 24, 1..=7 => 1 << 20, _ => 1 << 16 } } else { 0 };
    let (read_chunk, write_chunk) = if min_bytes > 0 { (if read_chunk == 1 || read_chunk == 7 { 255 } else { read_chunk }, if write_chunk > 0 && write_chunk < 64 { 4096 } else { write_chunk }) } else { (read_chunk, write_chunk) };
    let w = if min_bytes > 0 { world(read_chunk, write_chunk) } else { w };
    let (hist, table) = if kind == "history" { (Some(gen_history(&mut rng, min_bytes)), None) } else { (None, Some(gen_table(&mut rng, min_bytes))) };
    let written = match (&hist, &table)
    {
        (Some(h), _) => write_history(&w, h),
        (_, Some(t)) => write_table(&w, t),
        _ => unreachable!(),
    };
    let bytes = match written
    {
        Ok(b) => b,
        Err(e) =>
        {
            out.push(found(format!("C16:write-failed:{}", kind), format!("the real writer failed on the simulated disk: {}", e),
                J::obj().set("kind", J::s(kind)).set("seed", J::Str(format!("{}", seed))), Replay::StateRoundTrip{ kind : kind.to_string(), seed : seed }));
            return out;
        },
    };
    let entries = hist.as_ref().map(|h| h.keys.len()).or(table.as_ref().map(|t| t.entries.len())).unwrap_or(0);
    let mut cell = |fault : &str, pos : &str, outcome : &ReadOutcome, stats : &mut Stats|
    {
        let o = match outcome { ReadOutcome::Rejected => "rejected", ReadOutcome::AcceptedSame => "same", ReadOutcome::AcceptedDifferent => "different", ReadOutcome::Panicked(_) => "panic" };
        stats.distinct.insert(H64::new().str(kind).str(size_class(bytes.len())).str(fault).str(pos).str(o).get());
        // the byte order of multi-entry state files differs between processes (HashMap with
        // RandomState inside ruler), so which entry a flipped bit lands in is not reproducible;
        // only the fault kinds whose outcome is order-independent enter the determinism digest
        if fault == "none" || fault == "prefix" { stats.digest_str(o); }
        stats.inc("evaluations");
    };

    // no fault: exact round trip
    let o = read_back(kind, &w, &bytes, hist.as_ref(), table.as_ref(), &garbage_rule);
    cell("none", "-", &o, stats);
    stats.inc("c16.round_trips");
    if o != ReadOutcome::AcceptedSame
    {
        out.push(found(format!("C16:round-trip-differs:{}", kind), format!("{} with {} entries ({} bytes) written by the real writer was read back as {:?}", kind, entries, bytes.len(), o),
            J::obj().set("kind", J::s(kind)).set("seed", J::Str(format!("{}", seed))).set("bytes", J::Str(hex(&bytes))), Replay::StateRoundTrip{ kind : kind.to_string(), seed : seed }));
    }
    if !with_faults
    {
        return out;
    }

    // every strict prefix must be rejected (large files: both ends and a sample)
    let prefix_lengths : Vec<usize> = if bytes.len() <= 20_000 { (0..bytes.len()).collect() } else
    {
        let mut v : Vec<usize> = (0..64).collect();
        v.extend((0..96).map(|_| rng.below(bytes.len() as u64) as usize));
        v.extend(bytes.len() - 64..bytes.len());
        v
    };
    for n in prefix_lengths
    {
        let o = read_back(kind, &w, &bytes[..n], hist.as_ref(), table.as_ref(), &garbage_rule);
        cell("prefix", pos_class(n, bytes.len()), &o, stats);
        stats.inc("fault.truncated_state_file");
        match &o
        {
            ReadOutcome::Rejected => {},
            ReadOutcome::Panicked(m) => { if !out.iter().any(|f| f.sig.starts_with("C16:panic")) { out.push(found(format!("C16:panic:{}", kind), format!("reading a {}-byte prefix of a {} file panicked: {}", n, kind, m),
                J::obj().set("kind", J::s(kind)).set("bytes", J::Str(hex(&bytes[..n]))), Replay::State{ kind : kind.to_string(), bytes : bytes[..n].to_vec(), expect_reject : true, read_chunk : read_chunk as u32 })); } },
            _ => { if !out.iter().any(|f| f.sig.starts_with("C16:strict-prefix-accepted")) { out.push(found(format!("C16:strict-prefix-accepted:{}", kind), format!("the first {} of {} bytes of a valid {} file were accepted as {:?}", n, bytes.len(), kind, o),
                J::obj().set("kind", J::s(kind)).set("bytes", J::Str(hex(&bytes[..n]))), Replay::State{ kind : kind.to_string(), bytes : bytes[..n].to_vec(), expect_reject : true, read_chunk : read_chunk as u32 })); } },
        }
    }

    // single bit flips: every position of small instances, 256 sampled otherwise
    let total_bits = bytes.len() * 8;
    let positions : Vec<usize> = if bytes.len() <= 400 { (0..total_bits).collect() } else { (0..(if bytes.len() > 20_000 { 64 } else { 256 })).map(|_| rng.below(total_bits as u64) as usize).collect() };
    if bytes.len() <= 400 { stats.inc("c16.instances_with_exhaustive_bit_flips"); }
    for bit in positions
    {
        let mut b = bytes.clone();
        b[bit / 8] ^= 1 << (bit % 8);
        let o = read_back(kind, &w, &b, hist.as_ref(), table.as_ref(), &garbage_rule);
        cell("bitflip", pos_class(bit / 8, bytes.len()), &o, stats);
        stats.inc("fault.bit_flip_in_state_file");
        if let ReadOutcome::Panicked(m) = &o
        {
            if !out.iter().any(|f| f.sig.starts_with("C16:panic")) { out.push(found(format!("C16:panic:{}", kind), format!("reading a {} file with bit {} flipped panicked: {}", kind, bit, m),
                J::obj().set("kind", J::s(kind)).set("bytes", J::Str(hex(&b))), Replay::State{ kind : kind.to_string(), bytes : b.clone(), expect_reject : false, read_chunk : read_chunk as u32 })); }
        }
    }

    // garbage, including adversarial length prefixes
    for g in 0..64
    {
        let mut b : Vec<u8> = vec![];
        match g % 4
        {
            0 => { b.extend_from_slice(&[0xff; 8]); },
            1 => { b.extend_from_slice(&((rng.below(300) + 1) as u64).to_le_bytes()); },
            2 => { b.extend_from_slice(&(u64::MAX / 2).to_le_bytes()); },
            _ => {},
        }
        let n = rng.below(300) as usize;
        for _ in 0..n { b.push(rng.below(256) as u8); }
        let o = read_back(kind, &w, &b, None, None, &garbage_rule);
        cell("garbage", if g % 4 == 3 { "unstructured" } else { "adversarial-length" }, &o, stats);
        stats.inc("fault.garbage_state_file");
        if let ReadOutcome::Panicked(m) = &o
        {
            if !out.iter().any(|f| f.sig.starts_with("C16:panic")) { out.push(found(format!("C16:panic:{}", kind), format!("reading {} garbage bytes as a {} file panicked: {}", b.len(), kind, m),
                J::obj().set("kind", J::s(kind)).set("bytes", J::Str(hex(&b))), Replay::State{ kind : kind.to_string(), bytes : b.clone(), expect_reject : false, read_chunk : read_chunk as u32 })); }
        }
    }
    out
}

pub fn run_one(cfg : &Config, seed : u64, k : u64, stats : &mut Stats) -> Vec<Found>
{
    let kind = if k % 2 == 0 { "history" } else { "table" };
    if k < 3 * cfg.workers
    {
        stats.sample(J::obj().set("kind", J::s(kind)).set("instance_seed", J::Str(format!("{}", seed)))
            .set("faults", J::s("round trip; every strict prefix; single-bit flips (all positions when <= 400 bytes, else 256 sampled); 64 garbage strings")));
    }
    stats.inc(&format!("c16.instances.{}", kind));
    let found = one_instance(kind, seed, true, stats);
    stats.end_run();
    found
}
