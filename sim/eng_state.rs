use super::*;
pub fn run_one(_cfg : &Config, _seed : u64, _k : u64, _stats : &mut Stats) -> Vec<Found> { vec![] }
pub fn replay_bytes(_kind : &str, _bytes : &Vec<u8>, _expect_reject : bool, _read_chunk : u32) -> Vec<(String, String)> { vec![] }
pub fn replay_round_trip(_kind : &str, _seed : u64) -> Vec<(String, String)> { vec![] }
