// eng_conform.rs — model validation for the stub file system (run with C10): a fixed,
// single-threaded script of System calls is executed on RealSystem (in a scratch directory that
// is the working directory of a dedicated subprocess) and on SimSystem, and the observable
// results are compared.  This is validation of the stub, not simulation coverage.

use super::*;
use std::io::{Read, Write};
use crate::system::System;
use crate::system::real::RealSystem;
use super::super::simsys::World;
use super::super::scen::ruler_dir;

fn read_all<S : System>(sys : &S, path : &str, chunk : usize) -> String
{
    match sys.open(path)
    {
        Err(e) => format!("open-error {:?}", e),
        Ok(mut f) =>
        {
            let mut out = vec![];
            let mut buf = vec![0u8; chunk];
            loop
            {
                match f.read(&mut buf)
                {
                    Ok(0) => break,
                    Ok(n) => out.extend_from_slice(&buf[..n]),
                    Err(e) => return format!("read-error {}", e),
                }
            }
            format!("{:?}", String::from_utf8_lossy(&out))
        },
    }
}

fn write_new<S : System>(sys : &mut S, path : &str, content : &[u8]) -> String
{
    match sys.create_file(path)
    {
        Err(e) => format!("create-error {:?}", e),
        Ok(mut f) => match f.write_all(content) { Ok(_) => "ok".to_string(), Err(e) => format!("write-error {}", e) },
    }
}

/* (step name, is it a primitive C10 leans on?, observation) */
fn script<S : System>(sys : &mut S) -> Vec<(&'static str, bool, String)>
{
    let mut o : Vec<(&'static str, bool, String)> = vec![];
    o.push(("create_dir d", false, format!("{:?}", sys.create_dir("d"))));
    o.push(("create_dir d again", false, format!("{:?}", sys.create_dir("d").is_err())));
    o.push(("create_dir in missing parent", false, format!("{:?}", sys.create_dir("nodir/sub"))));
    o.push(("create+write d/a", false, write_new(sys, "d/a", b"hello")));
    o.push(("is_file d/a", false, format!("{}", sys.is_file("d/a"))));
    o.push(("is_dir d", false, format!("{}", sys.is_dir("d"))));
    o.push(("is_file d", false, format!("{}", sys.is_file("d"))));
    o.push(("is_dir d/a", false, format!("{}", sys.is_dir("d/a"))));
    o.push(("is_file missing", false, format!("{}", sys.is_file("nope"))));
    o.push(("is_dir missing", false, format!("{}", sys.is_dir("nope"))));
    o.push(("get_modified missing", false, format!("{:?}", sys.get_modified("nope").err())));
    o.push(("is_executable missing", false, format!("{:?}", sys.is_executable("nope"))));
    o.push(("set_is_executable missing", false, format!("{:?}", sys.set_is_executable("nope", true))));
    o.push(("is_executable fresh file", true, format!("{:?}", sys.is_executable("d/a"))));
    o.push(("set_is_executable true", true, format!("{:?}", sys.set_is_executable("d/a", true))));
    o.push(("is_executable after chmod", true, format!("{:?}", sys.is_executable("d/a"))));
    let m_before = sys.get_modified("d/a").ok();
    o.push(("rename d/a -> d/b", true, format!("{:?}", sys.rename("d/a", "d/b"))));
    o.push(("source gone after rename", true, format!("{}", sys.is_file("d/a"))));
    o.push(("bytes follow the rename", true, read_all(sys, "d/b", 256)));
    o.push(("exec bit follows the rename", true, format!("{:?}", sys.is_executable("d/b"))));
    o.push(("mtime follows the rename", true, format!("{}", sys.get_modified("d/b").ok() == m_before)));
    o.push(("rename missing source", true, format!("{:?}", sys.rename("d/missing", "d/x"))));
    o.push(("rename into missing directory", true, format!("{:?}", sys.rename("d/b", "nodir/x"))));
    o.push(("file intact after failed rename", true, read_all(sys, "d/b", 256)));
    o.push(("create+write d/c", false, write_new(sys, "d/c", b"other")));
    let m_c = sys.get_modified("d/c").ok();
    o.push(("rename onto existing file", true, format!("{:?}", sys.rename("d/c", "d/b"))));
    o.push(("destination replaced: bytes", true, read_all(sys, "d/b", 256)));
    o.push(("destination replaced: exec bit of the moved file", true, format!("{:?}", sys.is_executable("d/b"))));
    o.push(("destination replaced: mtime of the moved file", true, format!("{}", sys.get_modified("d/b").ok() == m_c)));
    o.push(("source gone after replacing rename", true, format!("{}", sys.is_file("d/c"))));
    o.push(("list_dir d", false, format!("{:?}", sys.list_dir("d"))));
    o.push(("list_dir missing", false, format!("{:?}", sys.list_dir("nope"))));
    o.push(("list_dir on a file", false, format!("{:?}", sys.list_dir("d/b"))));
    o.push(("open missing", false, format!("{:?}", sys.open("nope").err())));
    o.push(("create_file in missing directory", false, format!("{:?}", sys.create_file("nodir/x").err())));
    o.push(("create_dir sub", false, format!("{:?}", sys.create_dir("d/sub"))));
    o.push(("create+write d/sub/z", false, write_new(sys, "d/sub/z", b"zz")));
    o.push(("list_dir with file and dir", false, format!("{:?}", sys.list_dir("d"))));
    o.push(("short reads", false, read_all(sys, "d/b", 2)));
    let _ = sys.set_is_executable("d/b", true);
    let m1 = sys.get_modified("d/b").ok();
    o.push(("truncating create keeps the file", false, write_new(sys, "d/b", b"new")));
    o.push(("content after rewrite", false, read_all(sys, "d/b", 256)));
    o.push(("exec bit survives truncation", false, format!("{:?}", sys.is_executable("d/b"))));
    o.push(("mtime does not go backwards", false, format!("{}", sys.get_modified("d/b").ok() >= m1)));
    o.push(("set_is_executable false", false, format!("{:?}", sys.set_is_executable("d/b", false))));
    o.push(("is_executable after clearing", false, format!("{:?}", sys.is_executable("d/b"))));
    o.push(("empty file round trip", false, format!("{} {}", write_new(sys, "d/empty", b""), read_all(sys, "d/empty", 256))));
    o
}

fn compare() -> (usize, Vec<(bool, String, String)>)
{
    // cwd of this process is the scratch directory prepared by the driver
    let mut real = RealSystem::new();
    let real_obs = script(&mut real);
    let w = World::new(Knobs::default(), &ruler_dir());
    let mut sim = w.system();
    let sim_obs = script(&mut sim);
    let mut out = vec![];
    for ((name, core, r), (_, _, s)) in real_obs.iter().zip(sim_obs.iter())
    {
        if r != s
        {
            out.push((*core, name.to_string(), format!("RealSystem: {}   SimSystem: {}", r, s)));
        }
    }
    (real_obs.len(), out)
}

pub fn run(stats : &mut Stats) -> Vec<Found>
{
    let (steps, diffs) = compare();
    stats.add("conformance.steps_compared", steps as u64);
    stats.add("conformance.disagreements", diffs.len() as u64);
    diffs.into_iter().map(|(core, name, detail)| Found
    {
        prop : "C10".to_string(),
        sig : format!("{}:{}", if core { "C10:real-file-system-differs-from-model" } else { "CONFORM-HARNESS" }, name.replace(' ', "-")),
        detail : format!("conformance probe step '{}': {}", name, detail),
        explain : J::obj().set("step", J::s(&name)),
        replay : Replay::Conformance,
    }).collect()
}

pub fn replay() -> Vec<(String, String)>
{
    compare().1.into_iter().map(|(core, name, detail)| (format!("{}:{}", if core { "C10:real-file-system-differs-from-model" } else { "CONFORM-HARNESS" }, name.replace(' ', "-")), detail)).collect()
}

// ---------------------------------------------------------------- end-to-end differential

/* Whole generated scenarios are executed twice: in the simulator (SimSystem + stub command
   interpreter + serial schedule) and for real (RealSystem + /bin/sh running the same scripts
   translated to shell, real threads) in a scratch directory, and after every operation the two
   workspaces (bytes and executable bit of every file), the cached contents, the verdict and the
   status lines are compared.  Scenarios avoid equal contents, so the outcome does not depend on
   the (uncontrolled) real schedule.  A short real sleep separates user actions from invocations
   so that distinct writes get distinct real modification times (the property's assumption). */
mod real_run
{
    use super::*;
    use std::fs;
    use std::os::unix::fs::PermissionsExt;
    use std::path::Path;
    use crate::build::{build, clean, BuildParams};
    use super::super::super::hist::{Runner, cache_dir, table_path, history_dir};
    use super::super::super::scen::{DirPart, ruler_dir};
    use super::super::super::simsys::{RecPrinter, Printed};

    fn walk(dir : &Path, prefix : &str, out : &mut BTreeMap<String, (Vec<u8>, bool)>)
    {
        if let Ok(rd) = fs::read_dir(dir)
        {
            for e in rd.flatten()
            {
                let name = e.file_name().to_string_lossy().to_string();
                let rel = if prefix == "" { name.clone() } else { format!("{}/{}", prefix, name) };
                let p = e.path();
                if p.is_dir() { walk(&p, &rel, out); }
                else if let Ok(data) = fs::read(&p)
                {
                    let exec = fs::metadata(&p).map(|m| m.permissions().mode() & 0o111 != 0).unwrap_or(false);
                    out.insert(rel, (data, exec));
                }
            }
        }
    }

    fn pause() { std::thread::sleep(std::time::Duration::from_millis(12)); }

    fn write_rules(case : &Case, rules : &[SRule])
    {
        let n = case.rule_files % 10;
        let mid = if n >= 2 { (rules.len() + 1) / 2 } else { rules.len() };
        let text = |rs : &[SRule]| rs.iter().map(|r| r.render_shell()).collect::<Vec<String>>().join("\n");
        let names = case.rulefile_paths();
        let _ = fs::write(&names[0], text(&rules[..mid]));
        if n >= 2 { let _ = fs::write(&names[1], text(&rules[mid..])); }
    }

    fn banners(lines : &[Printed]) -> Vec<(String, String)>
    {
        let mut v : Vec<(String, String)> = lines.iter().filter_map(|p| match p { Printed::Banner(k, path) => Some((path.clone(), k.clone())), _ => None }).collect();
        v.sort();
        v
    }

    /* returns (operations compared, first disagreement) */
    pub fn differential(case : &Case, dir : &str) -> (usize, Option<String>)
    {
        let _ = fs::remove_dir_all(dir);
        fs::create_dir_all(dir).unwrap();
        let back = std::env::current_dir().unwrap();
        std::env::set_current_dir(dir).unwrap();
        let r = run(case);
        std::env::set_current_dir(back).unwrap();
        let _ = fs::remove_dir_all(dir);
        r
    }

    fn run(case : &Case) -> (usize, Option<String>)
    {
        let mut sim = Runner::new(case);
        for d in case.dirs.iter() { if !d.starts_with('@') { let _ = fs::create_dir_all(d); } }
        for (p, c) in case.files.iter() { let _ = fs::write(p, c); }
        let mut rules = case.rules.clone();
        write_rules(case, &rules);
        let mut compared = 0;

        for (i, op) in case.ops.iter().enumerate()
        {
            pause();
            let mut real_verdict : Option<(String, Vec<(String, String)>)> = None;
            match op
            {
                Op::Write{ path, content } => { let _ = fs::write(path, content); },
                Op::Delete{ path } => { let _ = fs::remove_file(path); },
                Op::Chmod{ path, exec } =>
                {
                    if let Ok(m) = fs::metadata(path)
                    {
                        let mode = m.permissions().mode();
                        let _ = fs::set_permissions(path, fs::Permissions::from_mode(if *exec { mode | 0o111 } else { mode & !0o111 }));
                    }
                },
                Op::Move{ from, to } => { let _ = fs::rename(from, to); },
                Op::SetRules{ rules : r } => { rules = r.clone(); write_rules(case, &rules); },
                Op::DeleteCacheEntry{ pick } =>
                {
                    let mut names : Vec<String> = fs::read_dir(cache_dir()).map(|rd| rd.flatten().map(|e| e.file_name().to_string_lossy().to_string()).collect()).unwrap_or(vec![]);
                    names.sort();
                    if names.len() > 0 { let _ = fs::remove_file(format!("{}/{}", cache_dir(), names[*pick as usize % names.len()])); }
                },
                Op::DeleteCacheContent{ content } =>
                {
                    if let Ok(rd) = fs::read_dir(cache_dir())
                    {
                        for e in rd.flatten() { if fs::read(e.path()).map(|c| c == *content).unwrap_or(false) { let _ = fs::remove_file(e.path()); } }
                    }
                },
                Op::DeleteRulerDir{ part } => match part
                {
                    DirPart::Whole => { let _ = fs::remove_dir_all(&ruler_dir()); },
                    DirPart::Cache => { let _ = fs::remove_dir_all(cache_dir()); },
                    DirPart::History => { let _ = fs::remove_dir_all(history_dir()); },
                    DirPart::HistoryFile(pick) =>
                    {
                        let mut names : Vec<String> = fs::read_dir(history_dir()).map(|rd| rd.flatten().map(|e| e.file_name().to_string_lossy().to_string()).collect()).unwrap_or(vec![]);
                        names.sort();
                        // rule identities (hence history file names) differ between the two runs (the command
                        // text does): a positional pick would not name the same rule; skip in both
                        let _ = (pick, names);
                    },
                    DirPart::Table => { let _ = fs::remove_file(table_path()); },
                },
                Op::DamageState{..} => {},
                Op::Restyle{..} | Op::PruneDirs | Op::MakeDirs | Op::DirAt{..} => {},
                Op::Build{ goal, .. } =>
                {
                    let mut printer = RecPrinter::new();
                    let r = build(RealSystem::new(), &mut printer, BuildParams::from_all(ruler_dir(), case.rulefile_paths(), None, goal.clone()));
                    real_verdict = Some((match r { Ok(()) => "Ok".to_string(), Err(e) => format!("Err({})", first_word(&format!("{:?}", e))) }, banners(&printer.lines)));
                },
                Op::Clean{ goal, .. } =>
                {
                    let r = clean(RealSystem::new(), &ruler_dir(), case.rulefile_paths(), goal.clone());
                    real_verdict = Some((match r { Ok(()) => "Ok".to_string(), Err(e) => format!("Err({})", first_word(&format!("{:?}", e))) }, vec![]));
                },
            }
            pause();

            // the same operation in the simulator
            let skip = match op { Op::DeleteRulerDir{ part : DirPart::HistoryFile(_) } | Op::DamageState{..} => true, _ => false };
            let sim_inv = if skip { sim.next_op += 1; None } else { sim.step() };
            if let Some(inv) = &sim_inv { sim.absorb(inv); }

            // compare
            let mut real_ws = BTreeMap::new();
            walk(Path::new("."), "", &mut real_ws);
            let real_cache : BTreeSet<Vec<u8>> = real_ws.iter().filter(|(p, _)| p.starts_with(&format!("{}/", cache_dir()))).map(|(_, (c, _))| c.clone()).collect();
            let rule_names = case.rulefile_paths();
            let real_files : BTreeMap<String, (Vec<u8>, bool)> = real_ws.into_iter().filter(|(p, _)| !p.starts_with(&format!("{}/", &ruler_dir())) && !rule_names.contains(p)).collect();
            let disk = sim.world.snapshot().0;
            let sim_files : BTreeMap<String, (Vec<u8>, bool)> = disk.workspace(&ruler_dir()).into_iter().filter(|(p, _)| !rule_names.contains(p)).map(|(p, (c, x))| (p, ((*c).clone(), x))).collect();
            let sim_cache : BTreeSet<Vec<u8>> = super::super::super::hist::cache_contents(&disk).into_iter().map(|(_, c)| (*c).clone()).collect();
            compared += 1;
            if real_files != sim_files
            {
                let mut diff = vec![];
                for (p, v) in real_files.iter() { if sim_files.get(p) != Some(v) { diff.push(format!("{}: real {:?}/x={} sim {:?}", p, String::from_utf8_lossy(&v.0), v.1, sim_files.get(p).map(|(c, x)| format!("{:?}/x={}", String::from_utf8_lossy(c), x)))); } }
                for p in sim_files.keys() { if !real_files.contains_key(p) { diff.push(format!("{}: only in the simulator", p)); } }
                return (compared, Some(format!("after op {} ({}): workspace differs: {}", i, op.kind(), diff.join("; "))));
            }
            if real_cache != sim_cache
            {
                return (compared, Some(format!("after op {} ({}): cached contents differ: real {:?} sim {:?}", i, op.kind(),
                    real_cache.iter().map(|c| String::from_utf8_lossy(c).to_string()).collect::<Vec<_>>(), sim_cache.iter().map(|c| String::from_utf8_lossy(c).to_string()).collect::<Vec<_>>())));
            }
            if let (Some((rv, rb)), Some(inv)) = (&real_verdict, &sim_inv)
            {
                let sv = match &inv.res.verdict { Verdict::Ok => "Ok".to_string(), Verdict::WorkErrors(_) => "Err(WorkErrors)".to_string(), Verdict::OtherError(e) => format!("Err({})", first_word(e)), other => other.short() };
                if *rv != sv
                {
                    return (compared, Some(format!("op {} ({}): verdict differs: real {} sim {}", i, op.kind(), rv, sv)));
                }
                if inv.is_build && *rb != banners(&inv.res.printed)
                {
                    return (compared, Some(format!("op {} ({}): status lines differ: real {:?} sim {:?}", i, op.kind(), rb, banners(&inv.res.printed))));
                }
            }
        }
        (compared, None)
    }

    fn first_word(s : &str) -> String
    {
        let end = s.find(|c : char| !(c.is_alphanumeric() || c == '_')).unwrap_or(s.len());
        s[..end].to_string()
    }
}

pub fn run_differential(stats : &mut Stats, scenarios : u64, seed : u64) -> Vec<Found>
{
    let mut found = vec![];
    for k in 0..scenarios
    {
        let s = mix64(seed ^ mix64(k + 0xd1ff));
        let mut rng = Rng::derive(s, 11);
        let mut g = GenCfg::base(false);
        g.outside_leaves = false;   // "../x" would leave the scratch directory on a real file system
        g.crowds = false;
        g.max_rules = rng.range(1, 5);
        g.max_ops = 6;
        g.min_ops = 3;
        g.failing = rng.chance(1, 5);
        g.missing_leaves = rng.chance(1, 5);
        g.shared_pool = false;          // unique contents: the outcome cannot depend on the real schedule
        g.empty_salts = false;
        g.twins = false;
        g.cleans = 25;
        g.exec = true;
        g.moves = false;
        g.policy_sched = Some(Strategy::Serial);
        let mut case = Gen::new(s, g).case();
        // the generator's salts may be empty (copies): make every emitted content unique
        let mut n = 0;
        let mut fix = |rules : &mut Vec<SRule>| for r in rules.iter_mut() { for l in r.lines.iter_mut() { if let Line::Emit{ salt, target, .. } = l { n += 1; *salt = format!("{}{}", target.replace('/', "_"), salt); } } };
        fix(&mut case.rules);
        for op in case.ops.iter_mut() { if let Op::SetRules{ rules } = op { fix(rules); } }
        let (compared, diff) = real_run::differential(&case, &format!("scenario-{}", k));
        stats.add("conformance.end_to_end_operations_compared", compared as u64);
        stats.inc("conformance.end_to_end_scenarios");
        if k < 2 { stats.sample(case.to_j().set("executed", J::s("on RealSystem with /bin/sh and in the simulator; compared after every operation"))); }
        if let Some(d) = diff
        {
            if found.len() == 0
            {
                found.push(Found
                {
                    prop : "C10".to_string(),
                    sig : "C10:real-file-system-differs-from-model:end-to-end".to_string(),
                    detail : format!("scenario {}: {}", k, d),
                    explain : case.to_j(),
                    replay : Replay::ConformanceCase{ case : case.clone() },
                });
            }
        }
    }
    found
}

pub fn replay_case(case : &Case) -> Vec<(String, String)>
{
    match real_run::differential(case, "replay-scenario").1
    {
        Some(d) => vec![("C10:real-file-system-differs-from-model:end-to-end".to_string(), d)],
        None => vec![],
    }
}
