// eng_conform.rs — model validation for the stub file system (run with C10): a fixed,
// single-threaded script of System calls is executed on RealSystem (in a scratch directory that
// is the working directory of a dedicated subprocess) and on SimSystem, and the observable
// results are compared.  This is validation of the stub, not simulation coverage.

use super::*;
use std::io::{Read, Write};
use crate::system::System;
use crate::system::real::RealSystem;
use super::super::simsys::World;
use super::super::scen::RULER_DIR;

fn read_all<S : System>(sys : &S, path : &str, chunk : usize) -> String
{
    match sys.open(path)
    {
        Err(e) => format!("open-error {:?}", e),
        Ok(mut f) =>
        {
            let mut out = vec![];
            let mut buf = vec![0u8; chunk];
            loop
            {
                match f.read(&mut buf)
                {
                    Ok(0) => break,
                    Ok(n) => out.extend_from_slice(&buf[..n]),
                    Err(e) => return format!("read-error {}", e),
                }
            }
            format!("{:?}", String::from_utf8_lossy(&out))
        },
    }
}

fn write_new<S : System>(sys : &mut S, path : &str, content : &[u8]) -> String
{
    match sys.create_file(path)
    {
        Err(e) => format!("create-error {:?}", e),
        Ok(mut f) => match f.write_all(content) { Ok(_) => "ok".to_string(), Err(e) => format!("write-error {}", e) },
    }
}

/* (step name, is it a primitive C10 leans on?, observation) */
fn script<S : System>(sys : &mut S) -> Vec<(&'static str, bool, String)>
{
    let mut o : Vec<(&'static str, bool, String)> = vec![];
    o.push(("create_dir d", false, format!("{:?}", sys.create_dir("d"))));
    o.push(("create_dir d again", false, format!("{:?}", sys.create_dir("d").is_err())));
    o.push(("create_dir in missing parent", false, format!("{:?}", sys.create_dir("nodir/sub"))));
    o.push(("create+write d/a", false, write_new(sys, "d/a", b"hello")));
    o.push(("is_file d/a", false, format!("{}", sys.is_file("d/a"))));
    o.push(("is_dir d", false, format!("{}", sys.is_dir("d"))));
    o.push(("is_file d", false, format!("{}", sys.is_file("d"))));
    o.push(("is_dir d/a", false, format!("{}", sys.is_dir("d/a"))));
    o.push(("is_file missing", false, format!("{}", sys.is_file("nope"))));
    o.push(("is_dir missing", false, format!("{}", sys.is_dir("nope"))));
    o.push(("get_modified missing", false, format!("{:?}", sys.get_modified("nope").err())));
    o.push(("is_executable missing", false, format!("{:?}", sys.is_executable("nope"))));
    o.push(("set_is_executable missing", false, format!("{:?}", sys.set_is_executable("nope", true))));
    o.push(("is_executable fresh file", true, format!("{:?}", sys.is_executable("d/a"))));
    o.push(("set_is_executable true", true, format!("{:?}", sys.set_is_executable("d/a", true))));
    o.push(("is_executable after chmod", true, format!("{:?}", sys.is_executable("d/a"))));
    let m_before = sys.get_modified("d/a").ok();
    o.push(("rename d/a -> d/b", true, format!("{:?}", sys.rename("d/a", "d/b"))));
    o.push(("source gone after rename", true, format!("{}", sys.is_file("d/a"))));
    o.push(("bytes follow the rename", true, read_all(sys, "d/b", 256)));
    o.push(("exec bit follows the rename", true, format!("{:?}", sys.is_executable("d/b"))));
    o.push(("mtime follows the rename", true, format!("{}", sys.get_modified("d/b").ok() == m_before)));
    o.push(("rename missing source", true, format!("{:?}", sys.rename("d/missing", "d/x"))));
    o.push(("rename into missing directory", true, format!("{:?}", sys.rename("d/b", "nodir/x"))));
    o.push(("file intact after failed rename", true, read_all(sys, "d/b", 256)));
    o.push(("create+write d/c", false, write_new(sys, "d/c", b"other")));
    let m_c = sys.get_modified("d/c").ok();
    o.push(("rename onto existing file", true, format!("{:?}", sys.rename("d/c", "d/b"))));
    o.push(("destination replaced: bytes", true, read_all(sys, "d/b", 256)));
    o.push(("destination replaced: exec bit of the moved file", true, format!("{:?}", sys.is_executable("d/b"))));
    o.push(("destination replaced: mtime of the moved file", true, format!("{}", sys.get_modified("d/b").ok() == m_c)));
    o.push(("source gone after replacing rename", true, format!("{}", sys.is_file("d/c"))));
    o.push(("list_dir d", false, format!("{:?}", sys.list_dir("d"))));
    o.push(("list_dir missing", false, format!("{:?}", sys.list_dir("nope"))));
    o.push(("list_dir on a file", false, format!("{:?}", sys.list_dir("d/b"))));
    o.push(("open missing", false, format!("{:?}", sys.open("nope").err())));
    o.push(("create_file in missing directory", false, format!("{:?}", sys.create_file("nodir/x").err())));
    o.push(("create_dir sub", false, format!("{:?}", sys.create_dir("d/sub"))));
    o.push(("create+write d/sub/z", false, write_new(sys, "d/sub/z", b"zz")));
    o.push(("list_dir with file and dir", false, format!("{:?}", sys.list_dir("d"))));
    o.push(("short reads", false, read_all(sys, "d/b", 2)));
    let _ = sys.set_is_executable("d/b", true);
    let m1 = sys.get_modified("d/b").ok();
    o.push(("truncating create keeps the file", false, write_new(sys, "d/b", b"new")));
    o.push(("content after rewrite", false, read_all(sys, "d/b", 256)));
    o.push(("exec bit survives truncation", false, format!("{:?}", sys.is_executable("d/b"))));
    o.push(("mtime does not go backwards", false, format!("{}", sys.get_modified("d/b").ok() >= m1)));
    o.push(("set_is_executable false", false, format!("{:?}", sys.set_is_executable("d/b", false))));
    o.push(("is_executable after clearing", false, format!("{:?}", sys.is_executable("d/b"))));
    o.push(("empty file round trip", false, format!("{} {}", write_new(sys, "d/empty", b""), read_all(sys, "d/empty", 256))));
    o
}

fn compare() -> (usize, Vec<(bool, String, String)>)
{
    // cwd of this process is the scratch directory prepared by the driver
    let mut real = RealSystem::new();
    let real_obs = script(&mut real);
    let w = World::new(Knobs::default(), RULER_DIR);
    let mut sim = w.system();
    let sim_obs = script(&mut sim);
    let mut out = vec![];
    for ((name, core, r), (_, _, s)) in real_obs.iter().zip(sim_obs.iter())
    {
        if r != s
        {
            out.push((*core, name.to_string(), format!("RealSystem: {}   SimSystem: {}", r, s)));
        }
    }
    (real_obs.len(), out)
}

pub fn run(stats : &mut Stats) -> Vec<Found>
{
    let (steps, diffs) = compare();
    stats.add("conformance.steps_compared", steps as u64);
    stats.add("conformance.disagreements", diffs.len() as u64);
    diffs.into_iter().map(|(core, name, detail)| Found
    {
        prop : "C10".to_string(),
        sig : format!("{}:{}", if core { "C10:real-file-system-differs-from-model" } else { "CONFORM-HARNESS" }, name.replace(' ', "-")),
        detail : format!("conformance probe step '{}': {}", name, detail),
        explain : J::obj().set("step", J::s(&name)),
        replay : Replay::Conformance,
    }).collect()
}

pub fn replay() -> Vec<(String, String)>
{
    compare().1.into_iter().map(|(core, name, detail)| (format!("{}:{}", if core { "C10:real-file-system-differs-from-model" } else { "CONFORM-HARNESS" }, name.replace(' ', "-")), detail)).collect()
}
