use super::*;
pub fn run(_stats : &mut Stats) -> Vec<Found> { vec![] }
pub fn replay() -> Vec<(String, String)> { vec![] }
