// eng_crash.rs — C11: process kill enumerated at every mutation index (and torn prefixes of every
// write) of a victim build/clean; every crash image is audited and recovered by a fresh build.

use super::*;
use super::super::hist::{audit_cache, conserved_contents, invoke, oracle_c01, in_cache, in_ruler_dir, table_path, history_dir};
use super::super::model::{self, Outcome};
use super::super::simsys::{World, Disk, CrashPoint};
use super::super::scen::ruler_dir;

fn file_class(path : &str, targets : &BTreeSet<String>) -> &'static str
{
    if path == table_path() || path == format!("{}.tmp", table_path()) { "table-file" }
    else if path.starts_with(&format!("{}/", history_dir())) { "history-file" }
    else if in_cache(path) { "cache-entry" }
    else if in_ruler_dir(path) { "ruler-directory" }
    else if targets.contains(path) { "target" }
    else { "other" }
}

pub struct CrashFinding
{
    pub v : Violation,
    pub index : u32,
    pub torn : Option<u32>,
    /* a second kill, during the recovery build: (mutation index of the recovery, torn bytes) */
    pub second : Option<(u32, Option<u32>)>,
}

pub struct Caps
{
    pub max_states : usize,       // per victim execution (0 = all)
    pub torn_state_all : bool,    // every strict prefix of state-file writes up to 512 bytes
    pub torn_samples : usize,
    pub recovery_sampled : bool,  // also recover under one sampled schedule
    pub second_kill_one_in : u64, // examine kills during the recovery build for 1 in n first-level states (0 = never)
    pub second_kill_states : usize,
}


/* audit (C07) + conservation (C08, with the narrow in-flight exemption) of one crash image */
fn examine_image(disk : &Disk, whence : &str, baseline : &BTreeMap<Vec<u8>, String>, target_paths : &BTreeSet<String>,
    expected : &BTreeMap<String, Vec<u8>>, earlier : &[CrashPoint], prefix : &str, exemptions : &mut u64) -> Vec<Violation>
{
    let mut vs = vec![];
    let mut audit = vec![];
    audit_cache(disk, whence, &mut audit);
    for a in audit { vs.push(Violation{ prop : "C11", sig : format!("C11:{}{}", prefix, a.sig), detail : a.detail }); }
    let now = conserved_contents(disk, target_paths);
    for (c, wher) in baseline.iter()
    {
        if now.contains_key(c) { continue; }
        // narrow exemption: the in-flight command has truncated a target that held exactly the
        // bytes it is regenerating for that very target (the AlreadyCorrect / just-recovered
        // sibling of a multi-target rule whose command has to run); the recovery step verifies
        // that the next build does regenerate them
        let exempt = earlier.iter().any(|q|
            q.origin == Origin::Command && q.op == FsOp::CreateFile
            && q.before.read(&q.path).map(|b| *b == *c).unwrap_or(false)
            && expected.get(&q.path).map(|b| *b == *c).unwrap_or(false));
        if exempt { *exemptions += 1; continue; }
        vs.push(Violation{ prop : "C11", sig : format!("C11:{}content-lost-at-crash:{}", prefix, if wher.starts_with("cache") { "was-in-cache" } else { "was-at-target" }),
            detail : format!("{}: bytes {} ({} before the invocation) are nowhere at a target path or in the cache", whence, super::super::util::show_bytes(c), wher) });
    }
    vs
}

fn expected_outputs(m : &Result<model::ModelResult, model::GraphError>) -> BTreeMap<String, Vec<u8>>
{
    match m
    {
        Ok(m) => m.outcomes.values().flat_map(|o| match o { Outcome::Built(ts) => ts.iter().map(|(t, b, _)| (t.clone(), b.clone())).collect::<Vec<_>>(), _ => vec![] }).collect(),
        Err(_) => BTreeMap::new(),
    }
}

/* the recovery build from `disk`; returns its violations and the observation */
fn recover(case : &Case, rules : &[SRule], disk : &Disk, clock : u64, rsched : SchedSpec, whence : &str, prefix : &str, victim : usize, record : bool, continuation : bool, goal : Option<String>) -> (Vec<Violation>, Option<(Inv, Vec<CrashPoint>)>)
{
    let mut vs = vec![];
    let world = World::from_disk(case.knobs.clone(), &ruler_dir(), disk.clone(), clock);
    let reader = { let d = disk.clone(); move |p : &str| d.read(p).map(|a| (*a).clone()) };
    let m = model::evaluate(rules, goal.as_ref().map(|s| s.as_str()), &reader);
    if record { world.start_crash_recording(); }
    let res = invoke(&world, true, goal.clone(), case.rulefile_paths(), rsched);
    let cps = if record { world.take_crash_points() } else { vec![] };
    let after = world.snapshot().0;
    let rinv = Inv{ op_index : victim, is_build : true, goal : goal.clone(), rules : rules.to_vec(), before : disk.clone(), after : after, res : res, model : m };
    let expected_ok = match &rinv.model { Ok(m) => m.all_built() && m.missing_leaves.len() == 0, Err(_) => false };
    if !expected_ok { return (vs, None); }
    match &rinv.res.verdict
    {
        Verdict::Ok =>
        {
            for v in oracle_c01(&rinv)
            {
                vs.push(Violation{ prop : "C11", sig : v.sig.replace("C01:", &format!("C11:{}recovery-build-wrong:", prefix)), detail : format!("{}: recovery build: {}", whence, v.detail) });
            }
            let mut audit = vec![];
            audit_cache(&rinv.after, "after recovery", &mut audit);
            for a in audit { vs.push(Violation{ prop : "C11", sig : format!("C11:{}after-recovery:{}", prefix, a.sig), detail : format!("{}: {}", whence, a.detail) }); }

            // "the state left on disk is one from which the next build completes successfully and
            // satisfies C01" — C01 quantifies over what comes after, too: for a share of the images
            // the recovered workspace goes through clean + build and through edit + build + revert +
            // build, and must stay correct and content-addressed
            if continuation && vs.len() == 0
            {
                let leaves : Vec<String> = match &rinv.model { Ok(m) => m.leaves.clone(), Err(_) => vec![] };
                // ("the next build" may well be a goal-restricted one: then a full build comes next)
                let mut follow : Vec<(&str, bool, Option<(String, Vec<u8>)>)> = if goal.is_some() { vec![("full build after the goal-restricted one", true, None)] } else { vec![] };
                follow.push(("clean", false, None));
                follow.push(("build after clean", true, None));
                if let Some(l) = leaves.first()
                {
                    let old = world.read(l).map(|a| (*a).clone()).unwrap_or(vec![]);
                    let mut new = old.clone();
                    new.extend_from_slice(b"~");
                    follow.push(("build after editing a source", true, Some((l.clone(), new))));
                    follow.push(("build after reverting the source", true, Some((l.clone(), old))));
                }
                for (what, is_build, write) in follow
                {
                    if let Some((p, c)) = &write { world.user_write(p, c); }
                    let before = world.snapshot().0;
                    let reader = { let d = before.clone(); move |p : &str| d.read(p).map(|a| (*a).clone()) };
                    let m2 = model::evaluate(rules, None, &reader);
                    let res2 = invoke(&world, is_build, None, case.rulefile_paths(), SchedSpec::serial());
                    let after2 = world.snapshot().0;
                    let inv2 = Inv{ op_index : victim, is_build : is_build, goal : None, rules : rules.to_vec(), before : before, after : after2, res : res2, model : m2 };
                    // (a full build after a goal-restricted recovery may meet rules that cannot succeed in
                    //  this workspace — a leaf the user moved away: nothing is demanded of it then)
                    if is_build && inv2.predicted_errors().map(|e| e.len() > 0).unwrap_or(true) { break; }
                    if inv2.res.verdict != Verdict::Ok
                    {
                        vs.push(Violation{ prop : "C11", sig : format!("C11:{}later-invocation-failed:{}", prefix, hist::sig_of_verdict(&inv2.res.verdict)),
                            detail : format!("{}: the recovery build succeeded, but the following {} returned {}", whence, what, inv2.res.verdict.short()) });
                        break;
                    }
                    for v in oracle_c01(&inv2)
                    {
                        vs.push(Violation{ prop : "C11", sig : v.sig.replace("C01:", &format!("C11:{}later-build-wrong:", prefix)), detail : format!("{}: {}: {}", whence, what, v.detail) });
                    }
                    let mut audit = vec![];
                    audit_cache(&inv2.after, what, &mut audit);
                    for a in audit { vs.push(Violation{ prop : "C11", sig : format!("C11:{}later:{}", prefix, a.sig), detail : format!("{}: {}", whence, a.detail) }); }
                    if vs.len() > 0 { break; }
                }
            }
        },
        other =>
        {
            vs.push(Violation{ prop : "C11", sig : format!("C11:{}recovery-failed:{}", prefix, hist::sig_of_verdict(other)),
                detail : format!("{}: the next build returned {}", whence, other.short()) });
        },
    }
    (vs, Some((rinv, cps)))
}

/* Build the disk a kill would leave: the snapshot before mutation `cp.index`, optionally with the
   first `torn` bytes of that write applied. */
fn crash_disk(cp : &CrashPoint, torn : Option<u32>) -> Disk
{
    let mut d = cp.before.clone();
    if let (Some(n), Some((inode, pos, buf))) = (torn, &cp.write)
    {
        let n = std::cmp::min(n as usize, buf.len());
        d.write_at(*inode, *pos, &buf[..n], cp.clock + 1);
    }
    d
}

/* Run the history of `case` up to its last op (the victim), execute the victim under its own
   schedule while recording crash points, and examine the crash states.
   `only`: examine just this (index, torn) state (replay); otherwise all, subject to `caps`. */
pub fn explore(case : &Case, caps : &Caps, only : Option<(u32, Option<u32>, Option<(u32, Option<u32>)>)>, recovery : &SchedSpec, rng : &mut Rng, mut stats : Option<&mut Stats>) -> Vec<CrashFinding>
{
    let mut out = vec![];
    if case.ops.len() == 0 { return out; }
    let mut runner = Runner::new(case);
    let victim = case.ops.len() - 1;
    while runner.next_op < victim
    {
        if let Some(inv) = runner.step() { runner.absorb(&inv); }
    }
    let (is_build, goal, sched) = match &case.ops[victim]
    {
        Op::Build{ goal, sched } => (true, goal.clone(), sched.clone()),
        Op::Clean{ goal, sched } => (false, goal.clone(), sched.clone()),
        _ => return out,
    };

    let pre = runner.world.snapshot();
    runner.world.start_crash_recording();
    let inv = runner.invocation(victim, is_build, goal.clone(), sched.clone());
    let cps = runner.world.take_crash_points();
    if let Some(s) = stats.as_deref_mut()
    {
        s.note_invocation(&inv, sched.name());
        s.add("c11.mutations_in_victim_executions", cps.len() as u64);
        s.inc("c11.victim_executions");
    }
    if !inv.res.verdict.returned()
    {
        return out;     // C05's business
    }

    let rules = runner.rules.clone();
    let mut target_paths : BTreeSet<String> = runner.ever_targets.clone();
    for r in rules.iter() { for t in r.targets.iter() { target_paths.insert(t.clone()); } }
    let pre_contents = conserved_contents(&pre.0, &target_paths);

    // which crash states to examine
    let mut states : Vec<(usize, Option<u32>)> = vec![];
    for (i, cp) in cps.iter().enumerate()
    {
        states.push((i, None));
        if let Some((_, _, buf)) = &cp.write
        {
            let l = buf.len();
            if l >= 2
            {
                let is_state = in_ruler_dir(&cp.path) && !in_cache(&cp.path);
                if is_state && caps.torn_state_all && l <= 64
                {
                    for n in 1..l { states.push((i, Some(n as u32))); }
                }
                else if is_state && caps.torn_state_all
                {
                    // every state file is written to <path>.tmp and renamed: all strict prefixes of one
                    // write are the same situation, so a sample (with both ends) is enough
                    let mut offs = BTreeSet::new();
                    offs.insert(1u32);
                    offs.insert((l - 1) as u32);
                    for _ in 0..24 { offs.insert(1 + rng.below((l - 1) as u64) as u32); }
                    for n in offs { states.push((i, Some(n))); }
                }
                else
                {
                    let mut offs = BTreeSet::new();
                    offs.insert(1u32);
                    offs.insert((l - 1) as u32);
                    for _ in 0..caps.torn_samples { offs.insert(1 + rng.below((l - 1) as u64) as u32); }
                    for n in offs { states.push((i, Some(n))); }
                }
            }
        }
    }
    if let Some((idx, torn, _)) = only
    {
        // replay: exactly the requested crash state (torn offsets of non-state files are sampled
        // during exploration, so the candidate list of this process need not contain it)
        states = cps.iter().enumerate().filter(|(_, c)| c.index == idx).map(|(i, _)| (i, torn)).collect();
    }
    else if caps.max_states > 0 && states.len() > caps.max_states
    {
        // always keep every point inside a state-file create..write window and inside a command
        let mut keep : Vec<(usize, Option<u32>)> = vec![];
        let mut rest : Vec<(usize, Option<u32>)> = vec![];
        for st in states
        {
            let cp = &cps[st.0];
            let prev_is_state_create = st.0 > 0 && cps[st.0 - 1].op == FsOp::CreateFile && in_ruler_dir(&cps[st.0 - 1].path) && !in_cache(&cps[st.0 - 1].path);
            let important = cp.origin == Origin::Command || (prev_is_state_create && st.1.is_none())
                || (in_ruler_dir(&cp.path) && !in_cache(&cp.path) && st.1.map(|n| n <= 2).unwrap_or(true));
            if important { keep.push(st); } else { rest.push(st); }
        }
        rng.shuffle(&mut rest);
        while keep.len() < caps.max_states && rest.len() > 0 { keep.push(rest.pop().unwrap()); }
        keep.sort();
        states = keep;
    }

    let victim_expected = expected_outputs(&inv.model);
    let second_only = match only { Some((_, _, sec)) => sec, None => None };
    for (i, torn) in states
    {
        let cp = &cps[i];
        let disk = crash_disk(cp, torn);
        let whence = format!("kill before mutation {} ({:?} {} by {:?}){}", cp.index, cp.op, cp.path, cp.origin,
            match torn { Some(n) => format!(", {} bytes of the write applied", n), None => "".to_string() });
        let class = format!("{:?}:{}:{:?}:{}", cp.op, file_class(&cp.path, &target_paths), cp.origin, if torn.is_some() { "torn" } else { "whole" });

        // (1) cache still content-addressed, (2) nothing lost
        let mut exemptions = 0u64;
        let mut vs = examine_image(&disk, &whence, &pre_contents, &target_paths, &victim_expected, &cps[..i], "", &mut exemptions);
        if let Some(s) = stats.as_deref_mut() { s.add("c11.conservation_exemption_used", exemptions); }

        // (3) the next build recovers: fresh process, nothing but the disk survives
        let want_second = second_only.is_some() || (only.is_none() && caps.second_kill_one_in > 0 && rng.below(caps.second_kill_one_in) == 0);
        let mut recoveries = vec![recovery.clone()];
        if caps.recovery_sampled && only.is_none() && rng.chance(1, 4) { recoveries.push(SchedSpec::random(rng)); }
        let mut first_recovery : Option<(Inv, Vec<CrashPoint>)> = None;
        for (ri, rsched) in recoveries.into_iter().enumerate()
        {
            // the continuation is deterministic in the crash state (no PRNG), so replays take it too
            let key = cp.index as usize + torn.unwrap_or(0) as usize;
            let continuation = ri == 0 && !want_second && key % 3 == 0;
            // one continuation in two starts with a goal-restricted recovery build
            let all_targets : Vec<String> = rules.iter().flat_map(|r| r.sorted_targets()).collect();
            let rgoal = if continuation && key % 2 == 0 && all_targets.len() > 0 { Some(all_targets[(key / 6) % all_targets.len()].clone()) } else { None };
            if rgoal.is_some() { if let Some(s) = stats.as_deref_mut() { s.inc("c11.goal_restricted_recoveries"); } }
            let (v, obs) = recover(case, &rules, &disk, cp.clock + 10, rsched, &whence, "", victim, want_second && ri == 0, continuation, rgoal);
            if continuation { if let Some(s) = stats.as_deref_mut() { s.inc("c11.recoveries_followed_by_clean_build_edit_revert"); } }
            if let Some(s) = stats.as_deref_mut()
            {
                s.inc("evaluations"); s.inc("c11.recovery_builds");
                if let Some((rinv, _)) = &obs
                {
                    s.digest_str(&format!("{} {:?} {}", cp.index, torn, rinv.res.verdict.short()));
                    s.add("sim.steps", rinv.res.steps as u64); s.add("sim.decisions", rinv.res.decisions as u64); s.add("sim.events", rinv.res.events.len() as u64);
                    s.add("sim.threads", rinv.res.threads as u64); s.add("sim.clock_ticks", rinv.res.clock_ticks);
                }
            }
            vs.extend(v);
            if ri == 0 { first_recovery = obs; }
        }

        if let Some(s) = stats.as_deref_mut()
        {
            s.inc("c11.crash_states");
            s.inc(&format!("fault.kill.{}", if torn.is_some() { "torn_write" } else { "between_mutations" }));
            let differs_pre = disk.image() != pre.0.image();
            let differs_post = disk.image() != inv.after.image();
            if differs_pre && differs_post
            {
                // cell = (mutation kind, file class, origin, torn) x (victim kind, goal?) x what the prior history did
                let prior : BTreeSet<&'static str> = case.ops[..victim].iter().map(|o| o.kind()).collect();
                let mut h = H64::new();
                h.str(&class).u64(is_build as u64).u64(goal.is_some() as u64);
                for k in prior.iter() { h.str(k); }
                s.distinct.insert(h.get());
                s.inc("c11.crash_states_strictly_inside");
            }
            s.inc(&format!("c11.class.{}", class));
        }
        for v in vs
        {
            out.push(CrashFinding{ v : v, index : cp.index, torn : torn, second : None });
        }

        // (4) a second kill, during that recovery build: its images are audited against the first
        //     crash image and must recover in turn
        if want_second
        {
            if let Some((rinv, rcps)) = first_recovery
            {
                if rinv.res.verdict == Verdict::Ok
                {
                    let base2 = conserved_contents(&disk, &target_paths);
                    let exp2 = expected_outputs(&rinv.model);
                    let mut idxs : Vec<(usize, Option<u32>)> = vec![];
                    for (j, q) in rcps.iter().enumerate()
                    {
                        idxs.push((j, None));
                        if let Some((_, _, buf)) = &q.write { if buf.len() >= 2 { idxs.push((j, Some(1 + rng.below((buf.len() - 1) as u64) as u32))); } }
                    }
                    match second_only
                    {
                        Some((i2, t2)) => { idxs = rcps.iter().enumerate().filter(|(_, q)| q.index == i2).map(|(j, _)| (j, t2)).collect(); },
                        None => { rng.shuffle(&mut idxs); idxs.truncate(caps.second_kill_states); },
                    }
                    for (j, t2) in idxs
                    {
                        let q = &rcps[j];
                        let disk2 = crash_disk(q, t2);
                        let whence2 = format!("{}; then the recovery build killed before its mutation {} ({:?} {} by {:?}){}", whence, q.index, q.op, q.path, q.origin,
                            match t2 { Some(n) => format!(", {} bytes of the write applied", n), None => "".to_string() });
                        let mut ex2 = 0u64;
                        let mut vs2 = examine_image(&disk2, &whence2, &base2, &target_paths, &exp2, &rcps[..j], "second-kill:", &mut ex2);
                        let (v, _) = recover(case, &rules, &disk2, q.clock + 10, SchedSpec::serial(), &whence2, "second-kill:", victim, false, false, None);
                        vs2.extend(v);
                        if let Some(s) = stats.as_deref_mut()
                        {
                            s.inc("evaluations");
                            s.inc("c11.second_kill_states");
                            s.inc("fault.kill.during_recovery_build");
                            s.distinct.insert(H64::new().str("second").str(&format!("{:?}:{}:{:?}:{}", q.op, file_class(&q.path, &target_paths), q.origin, t2.is_some())).get());
                        }
                        for v in vs2
                        {
                            out.push(CrashFinding{ v : v, index : cp.index, torn : torn, second : Some((q.index, t2)) });
                        }
                    }
                }
            }
        }
    }
    out
}

fn caps_for(thorough : bool) -> Caps
{
    if thorough { Caps{ max_states : 0, torn_state_all : true, torn_samples : 4, recovery_sampled : true, second_kill_one_in : 8, second_kill_states : 12 } }
    else { Caps{ max_states : 150, torn_state_all : false, torn_samples : 3, recovery_sampled : false, second_kill_one_in : 12, second_kill_states : 4 } }
}

pub fn replay(case : &Case, index : u32, torn : Option<u32>, second : Option<(u32, Option<u32>)>, recovery : &SchedSpec) -> Vec<(String, String)>
{
    let caps = Caps{ max_states : 0, torn_state_all : true, torn_samples : 0, recovery_sampled : false, second_kill_one_in : 0, second_kill_states : 0 };
    let mut rng = Rng::new(1);
    explore(case, &caps, Some((index, torn, second)), recovery, &mut rng, None).into_iter().map(|f| (f.v.sig, f.v.detail)).collect()
}

pub fn run_one(cfg : &Config, seed : u64, k : u64, stats : &mut Stats) -> Vec<Found>
{
    let mut rng = Rng::derive(seed, 3);
    let mut g = GenCfg::base(cfg.thorough);
    g.crowds = false;   // a kill before every mutation of a 200-rule build, each followed by a 200-rule recovery: hours per case
    g.max_rules = rng.range(1, if cfg.thorough { 10 } else { 6 });
    g.max_ops = 4;
    g.min_ops = 0;
    g.end_with_build = false;
    g.failing = false;
    g.missing_leaves = false;
    g.goals = rng.chance(1, 2);
    g.cleans = *rng.pick(&[0u64, 10, 25]);
    g.exec = rng.chance(1, 2);
    g.shared_pool = rng.chance(1, 2);
    let mut gen = Gen::new(seed, g);
    let mut case = gen.case();
    let goal = if rng.chance(1, 4) { let ts : Vec<String> = gen.current_rules().iter().flat_map(|r| r.targets.clone()).collect(); if ts.len() > 0 { Some(rng.pick(&ts).clone()) } else { None } } else { None };
    let victim_clean = rng.chance(1, 4);
    case.ops.push(if victim_clean { Op::Clean{ goal, sched : SchedSpec::serial() } } else { Op::Build{ goal, sched : SchedSpec::serial() } });
    let victim = case.ops.len() - 1;
    if k < 3 * cfg.workers { stats.sample(case.to_j().set("victim_op", J::Int(victim as i64))); }

    let caps = caps_for(cfg.thorough);
    let n_sched = if cfg.thorough { 1 + 3 } else { 1 + 2 };
    let mut found : Vec<Found> = vec![];
    for j in 0..n_sched
    {
        let sched = if j == 0 { SchedSpec::serial() } else { SchedSpec::random(&mut rng) };
        // make the victim schedule explicit so that the replay does not depend on the PRNG
        let mut c = case.clone();
        set_sched(&mut c.ops[victim], sched);
        let c = explicit_schedules(&c);
        let fs = explore(&c, &caps, None, &SchedSpec::serial(), &mut rng, Some(stats));
        let mut seen = BTreeSet::new();
        for f in fs
        {
            if !seen.insert(f.v.sig.clone()) || found.iter().any(|x| x.sig == f.v.sig) || !stats.reported.insert(f.v.sig.clone()) { continue; }
            // minimise the history; the crash index is re-found in the smaller case
            let sig = f.v.sig.clone();
            let second_level = f.second.is_some();
            let all = Caps{ max_states : 0, torn_state_all : false, torn_samples : 1, recovery_sampled : false, second_kill_one_in : if second_level { 1 } else { 0 }, second_kill_states : if second_level { 1000 } else { 0 } };
            let test = {
                let sig = sig.clone();
                move |cand : &Case|
                {
                    let mut r = Rng::new(7);
                    match cand.ops.last() { Some(Op::Build{..}) | Some(Op::Clean{..}) => {}, _ => return false }
                    explore(cand, &Caps{ max_states : 0, torn_state_all : false, torn_samples : 1, recovery_sampled : false, second_kill_one_in : if second_level { 1 } else { 0 }, second_kill_states : if second_level { 1000 } else { 0 } }, None, &SchedSpec::serial(), &mut r, None).iter().any(|x| x.v.sig == sig)
                }
            };
            // a second-level finding is reported in the history that produced it (re-exploring every
            // pair of kill points for every minimisation candidate would take minutes); a
            // first-level one is minimised and its crash index re-found in the smaller history
            let (case_final, index, torn, second, detail) = if second_level
            {
                (c.clone(), f.index, f.torn, f.second, f.v.detail.clone())
            }
            else
            {
                let small = if test(&c) { minimize_with_budget(&c, &test, 40) } else { c.clone() };
                let mut r = Rng::new(7);
                let again = explore(&small, &all, None, &SchedSpec::serial(), &mut r, None);
                match again.into_iter().find(|x| x.v.sig == sig)
                {
                    Some(x) => (small, x.index, x.torn, x.second, x.v.detail),
                    None => (c.clone(), f.index, f.torn, f.second, f.v.detail.clone()),
                }
            };
            found.push(Found
            {
                prop : "C11".to_string(),
                sig : sig,
                detail : detail,
                explain : case_final.to_j().set("crash_before_mutation", J::Int(index as i64)).set("torn_bytes_applied", match torn { Some(n) => J::Int(n as i64), None => J::Null })
                    .set("second_kill_before_mutation_of_recovery_build", match second { Some((i2, _)) => J::Int(i2 as i64), None => J::Null }),
                replay : Replay::Crash{ case : case_final, index : index, torn : torn, second : second, recovery : SchedSpec::serial() },
            });
        }
    }
    stats.end_run();
    found
}
