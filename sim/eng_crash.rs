use super::*;
pub fn run_one(_cfg : &Config, _seed : u64, _k : u64, _stats : &mut Stats) -> Vec<Found> { vec![] }
pub fn replay(_case : &Case, _index : u32, _torn : Option<u32>, _rec : &SchedSpec) -> Vec<(String, String)> { vec![] }
