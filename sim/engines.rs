// engines.rs — worker main loop, statistics, replay files, minimisation, and dispatch to the
// per-property engines.

use std::collections::{BTreeMap, BTreeSet};
use std::io::Write as IoWrite;

use serde::{Serialize, Deserialize};

use super::gen::{Gen, GenCfg};
use super::hist::{self, Runner, Violation, Inv, Verdict};
use super::rt::{SchedSpec, Strategy, Ev, FsOp, Origin};
use super::scen::{Case, Op, SRule, Line};
use super::simsys::{Knobs, ClockMode, DiskImage, Printed};
use super::util::{J, H64, mix64, hex, unhex, Rng};

pub mod sched_engine { include!(concat!(env!("RULER_VERIF_DIR"), "/eng_sched.rs")); }
pub mod crash_engine { include!(concat!(env!("RULER_VERIF_DIR"), "/eng_crash.rs")); }
pub mod state_engine { include!(concat!(env!("RULER_VERIF_DIR"), "/eng_state.rs")); }
pub mod pair_engine { include!(concat!(env!("RULER_VERIF_DIR"), "/eng_pair.rs")); }
pub mod server_engine { include!(concat!(env!("RULER_VERIF_DIR"), "/eng_server.rs")); }
pub mod c17_engine { include!(concat!(env!("RULER_VERIF_DIR"), "/eng_c17.rs")); }
pub mod conform_engine { include!(concat!(env!("RULER_VERIF_DIR"), "/eng_conform.rs")); }

// ---------------------------------------------------------------- statistics

pub struct Stats
{
    pub counters : BTreeMap<String, u64>,
    pub distinct : BTreeSet<u64>,
    pub schedules : BTreeSet<u64>,
    pub conflicts : BTreeSet<u64>,
    pub samples : Vec<J>,
    pub digests : Vec<(u64, u64)>,
    pub want_digests : bool,
    pub cur_digest : H64,
    /* signatures this worker has already minimised and reported: seeing one again costs nothing */
    pub reported : BTreeSet<String>,
}

impl Stats
{
    pub fn new() -> Stats
    {
        Stats
        {
            counters : BTreeMap::new(),
            distinct : BTreeSet::new(),
            schedules : BTreeSet::new(),
            conflicts : BTreeSet::new(),
            samples : vec![],
            digests : vec![],
            want_digests : false,
            cur_digest : H64::new(),
            reported : BTreeSet::new(),
        }
    }

    pub fn add(&mut self, key : &str, n : u64)
    {
        *self.counters.entry(key.to_string()).or_insert(0) += n;
    }

    pub fn inc(&mut self, key : &str)
    {
        self.add(key, 1);
    }

    pub fn sample(&mut self, j : J)
    {
        if self.samples.len() < 3
        {
            self.samples.push(j);
        }
    }

    pub fn digest_str(&mut self, text : &str)
    {
        if self.want_digests
        {
            if std::env::var("VERIF_DIGEST_TRACE").is_ok() { eprintln!("DIGEST {}", text); }
            self.cur_digest.str(text);
        }
    }

    /* end of one seeded run: count it and close its event-log digest */
    pub fn end_run(&mut self)
    {
        self.inc("runs");
        for d in super::gen::take_case_dimensions() { self.inc(&format!("case.{}", d)); }
        if self.want_digests
        {
            let n = self.counters.get("runs").cloned().unwrap_or(0);
            self.digests.push((n, self.cur_digest.get()));
            self.cur_digest = H64::new();
        }
    }

    /* bookkeeping common to every simulated invocation */
    pub fn note_invocation(&mut self, inv : &Inv, sched_name : &str)
    {
        if self.want_digests
        {
            for e in inv.res.events.iter()
            {
                self.cur_digest.u64(e.tid as u64).str(&event_digest_text(&e.kind));
            }
            self.cur_digest.str(&inv.res.verdict.short());
            for p in inv.res.printed.iter()
            {
                if let Printed::Banner(k, path) = p { self.cur_digest.str(k).str(path); }
            }
        }
        self.inc("evaluations");
        self.inc(if inv.is_build { "invocations.build" } else { "invocations.clean" });
        self.add("sim.clock_ticks", inv.res.clock_ticks);
        self.add("sim.steps", inv.res.steps as u64);
        // margin to the step bound (150 000 + 400 per file): how many invocations took a twentieth, a tenth, a fifth of it
        if inv.res.steps >= 7_500 { self.inc("sim.invocations_with_7500_or_more_steps"); }
        if inv.res.steps >= 15_000 { self.inc("sim.invocations_with_15000_or_more_steps"); }
        if inv.res.steps >= 30_000 { self.inc("sim.invocations_with_30000_or_more_steps"); }
        self.add("sim.decisions", inv.res.decisions as u64);
        self.add("sim.events", inv.res.events.len() as u64);
        self.add("sim.threads", inv.res.threads as u64);
        self.inc(&format!("strategy.{}", sched_name));
        let mut h = H64::new();
        for (i, t) in inv.res.record.iter()
        {
            h.u64(*i as u64).u64(*t as u64);
        }
        h.u64(inv.res.decisions as u64);
        self.schedules.insert(h.get());
        self.conflicts.insert(hist::conflict_hash(&inv.res.events));
        if inv.res.detached_at_exit.len() > 0
        {
            self.inc("probe.threads_detached_at_return");
        }
        for e in inv.res.events.iter()
        {
            match &e.kind
            {
                Ev::CmdStart{..} => self.inc("sim.commands_run"),
                Ev::Fs{ op : FsOp::Rename, origin : Origin::Ruler, path, ok, .. } =>
                {
                    if hist::in_cache(path)
                    {
                        self.inc(if *ok { "probe.restore_from_cache" } else { "probe.restore_rename_failed" });
                    }
                    else
                    {
                        self.inc("probe.displace_to_cache");
                    }
                },
                _ => {},
            }
        }
        match &inv.res.verdict
        {
            Verdict::Ok => self.inc("verdict.ok"),
            Verdict::WorkErrors(_) => self.inc("verdict.work_errors"),
            Verdict::OtherError(e) => { self.inc("verdict.other_error"); self.inc(&format!("verdict.other.{}", e)); },
            Verdict::Panic(_) => self.inc("verdict.panic"),
            Verdict::Abort(_) => self.inc("verdict.abort"),
        }
    }

    pub fn to_j(&self) -> J
    {
        let mut c = J::obj();
        for (k, v) in self.counters.iter()
        {
            c.put(k, J::Int(*v as i64));
        }
        J::obj()
            .set("t", J::s("stats"))
            .set("counters", c)
            .set("distinct", J::Arr(self.distinct.iter().map(|h| J::Str(format!("{:016x}", h))).collect()))
            .set("schedules", J::Arr(self.schedules.iter().map(|h| J::Str(format!("{:016x}", h))).collect()))
            .set("conflicts", J::Arr(self.conflicts.iter().map(|h| J::Str(format!("{:016x}", h))).collect()))
            .set("samples", J::Arr(self.samples.clone()))
            .set("digests", J::Arr(self.digests.iter().map(|(r, h)| J::Arr(vec![J::Int(*r as i64), J::Str(format!("{:016x}", h))])).collect()))
    }
}

// ---------------------------------------------------------------- replay files

#[derive(Clone, Debug, Serialize, Deserialize)]
pub enum Replay
{
    /* run the history, evaluate the oracles of `prop` */
    Hist{ prop : String, case : Case },
    /* C06: the last operation of `case` under its own schedule and under `alt` from the same pre-state */
    Pair{ case : Case, alt : SchedSpec },
    /* C18: the history as is and with the file-state table erased before every build */
    Table{ case : Case },
    /* C11: run the history; crash the last operation (the victim) at mutation `index`
       (torn: only that many bytes of the write applied); recover with `recovery` schedule */
    Crash{ case : Case, index : u32, torn : Option<u32>, second : Option<(u32, Option<u32>)>, recovery : SchedSpec },
    /* C16 */
    State{ kind : String, bytes : Vec<u8>, expect_reject : bool, read_chunk : u32 },
    StateRoundTrip{ kind : String, seed : u64 },
    /* C19 */
    Server{ case : Case, requests : Vec<(String, String, String)> },
    /* C17 */
    C17{ case : Case },
    /* C10 conformance probe: fixed script, nothing to parametrise */
    Conformance,
    /* C10 end-to-end differential: the scenario on RealSystem + sh vs. in the simulator */
    ConformanceCase{ case : Case },
}

#[derive(Clone, Debug)]
pub struct Found
{
    pub prop : String,
    pub sig : String,
    pub detail : String,
    pub replay : Replay,
    pub explain : J,
}

pub fn replay_to_json(f : &Found) -> J
{
    let blob = bincode::serialize(&f.replay).unwrap();
    J::obj()
        .set("property", J::s(&f.prop))
        .set("signature", J::s(&f.sig))
        .set("detail", J::s(&f.detail))
        .set("explain", f.explain.clone())
        .set("blob", J::Str(hex(&blob)))
}

pub fn replay_from_json(text : &str) -> Option<(String, String, Replay)>
{
    let j = J::parse(text)?;
    let prop = j.get("property")?.as_str()?.to_string();
    let sig = j.get("signature")?.as_str()?.to_string();
    let blob = unhex(j.get("blob")?.as_str()?)?;
    let r : Replay = bincode::deserialize(&blob).ok()?;
    Some((prop, sig, r))
}

// ---------------------------------------------------------------- configuration

pub struct Config
{
    pub prop : String,
    pub thorough : bool,
    pub seed : u64,
    pub worker : u64,
    pub workers : u64,
    pub runs : u64,
    pub max_findings : usize,
    pub known : Vec<String>,    // signatures listed in known_findings.json: report once, do not stop on them
}

fn env_u64(name : &str, default : u64) -> u64
{
    std::env::var(name).ok().and_then(|v| v.parse::<u64>().ok()).unwrap_or(default)
}

pub fn prop_hash(prop : &str) -> u64
{
    H64::new().str(prop).get()
}

pub fn run_seed(cfg : &Config, k : u64) -> u64
{
    mix64(cfg.seed.wrapping_mul(0x9E37_79B9_7F4A_7C15) ^ prop_hash(&cfg.prop) ^ mix64(k.wrapping_add(77)))
}

// ---------------------------------------------------------------- history engine (C01 C02 C07 C08 C09 C10 C20)

pub fn hist_gen_cfg(prop : &str, thorough : bool, rng : &mut Rng) -> GenCfg
{
    let mut g = GenCfg::base(thorough);
    // swarm: each run enables a random subset of the operation kinds
    g.user_damage = rng.chance(3, 4);
    g.rule_edits = rng.chance(3, 4);
    g.missing_leaves = rng.chance(1, 2);
    g.failing = rng.chance(1, 3);
    g.goals = rng.chance(3, 4);
    g.exec = rng.chance(1, 2);
    g.cleans = *rng.pick(&[0u64, 8, 8, 15, 25]);
    g.shared_pool = rng.chance(1, 3);
    g.max_rules = rng.range(1, g.max_rules);
    if thorough && rng.chance(1, 20) { g.max_rules = rng.range(15, 28); }
    g.soak = rng.chance(1, 250);
    match prop
    {
        "C02" => { g.failing = rng.chance(1, 6); g.cleans = *rng.pick(&[8u64, 15, 25]); },
        "C07" | "C08" => { g.user_damage = true; g.failing = rng.chance(1, 2); g.shared_pool = rng.chance(1, 2); },
        "C09" => { g.goals = true; },
        "C10" => { g.cleans = 30; g.exec = true; g.failing = false; g.missing_leaves = false; g.user_damage = rng.chance(1, 3); g.min_ops = 3; },
        "C20" => { g.cleans = *rng.pick(&[8u64, 15, 25]); },
        _ => {},
    }
    g
}

pub fn shape_hash(rules : &[SRule]) -> u64
{
    let owner : BTreeMap<String, usize> = rules.iter().enumerate().flat_map(|(i, r)| r.targets.iter().map(move |t| (t.clone(), i))).collect();
    let mut h = H64::new();
    for r in rules
    {
        h.u64(r.targets.len() as u64).u64(r.sources.len() as u64).u64(r.lines.len() as u64);
        for s in r.sources.iter()
        {
            h.u64(match owner.get(s) { Some(i) => *i as u64 + 1, None => 0 });
        }
    }
    h.get()
}

pub fn ops_hash(ops : &[Op]) -> u64
{
    let mut h = H64::new();
    for o in ops
    {
        h.str(o.kind());
    }
    h.get()
}

fn banner_hash(inv : &Inv) -> u64
{
    let mut kinds : Vec<String> = inv.res.printed.iter().filter_map(|p| match p { Printed::Banner(k, _) => Some(k.clone()), _ => None }).collect();
    kinds.sort();
    let mut h = H64::new();
    for k in kinds
    {
        h.str(&k);
    }
    h.str(&hist::sig_of_verdict(&inv.res.verdict));
    h.get()
}

/* Run one history and evaluate the oracles of `prop`.  Statistics are optional so the same
   function serves generation, minimisation and replay. */
pub fn hist_run(prop : &str, case : &Case, mut stats : Option<&mut Stats>) -> Vec<Violation>
{
    let mut runner = Runner::new(case);
    let mut found = vec![];
    let mut ok_builds = 0usize;
    let mut changed_since_ok_build = false;
    let mut run_hash = H64::new();
    run_hash.u64(shape_hash(&case.rules)).u64(ops_hash(&case.ops));
    let mut nontrivial = false;
    while !runner.done()
    {
        let op = runner.case.ops[runner.next_op].clone();
        let sched_name = match &op { Op::Build{ sched, .. } | Op::Clean{ sched, .. } => sched.name(), _ => "" };
        let inv = match runner.step()
        {
            Some(inv) => inv,
            None =>
            {
                changed_since_ok_build = true;
                if let Some(s) = stats.as_deref_mut() { s.inc(&format!("userop.{}", op.kind())); }
                continue;
            },
        };

        if let Some(s) = stats.as_deref_mut()
        {
            s.note_invocation(&inv, sched_name);
        }

        let mut vs : Vec<Violation> = vec![];
        match prop
        {
            "C01" =>
            {
                vs.extend(hist::oracle_c01(&inv));
                if inv.is_build && inv.res.verdict == Verdict::Ok
                {
                    ok_builds += 1;
                    if ok_builds >= 2 && changed_since_ok_build { nontrivial = true; }
                    changed_since_ok_build = false;
                }
                run_hash.u64(banner_hash(&inv));
            },
            "C02" =>
            {
                let (v, info) = hist::oracle_c02(&inv, &runner);
                vs.extend(v);
                if info.obligations > 0
                {
                    if let Some(s) = stats.as_deref_mut()
                    {
                        s.add("c02.obligations", info.obligations as u64);
                        let mut h = H64::new();
                        h.u64(shape_hash(&inv.rules));
                        for r in info.obliged_rules.iter()
                        {
                            h.u64(*r as u64);
                            for t in inv.rules[*r].sorted_targets()
                            {
                                h.u64(inv.before.is_file(&t) as u64);
                            }
                        }
                        s.distinct.insert(h.get());
                    }
                }
            },
            "C07" =>
            {
                vs.extend(hist::oracle_c07(&inv));
                if let Some(s) = stats.as_deref_mut() { s.add("probe.entered_cache_under_a_name_that_is_not_its_hash", hist::probe_c07_staging(&inv) as u64); }
                let entered : Vec<u64> = inv.res.events.iter().filter_map(|e| match &e.kind
                {
                    Ev::Fs{ op : FsOp::Rename, origin : Origin::Ruler, path2 : Some(to), ok : true, replaced, .. } if hist::in_cache(to) =>
                        Some(1 + replaced.is_some() as u64),
                    _ => None,
                }).collect();
                if entered.len() > 0
                {
                    if let Some(s) = stats.as_deref_mut()
                    {
                        s.add("c07.entries_entered", entered.len() as u64);
                        let mut h = H64::new();
                        h.u64(shape_hash(&inv.rules)).u64(ops_hash(&runner.case.ops[..=inv.op_index]));
                        for e in entered { h.u64(e); }
                        s.distinct.insert(h.get());
                    }
                }
                if let Some(s) = stats.as_deref_mut()
                {
                    s.add("c07.entries_audited", hist::cache_contents(&inv.after).len() as u64);
                }
            },
            "C08" =>
            {
                vs.extend(hist::oracle_c08(&inv, &runner.ever_targets));
                if let Some(s) = stats.as_deref_mut() { s.add("probe.ruler_replaced_different_bytes", hist::probe_c08_overwrites(&inv) as u64); }
                let displaced = inv.res.events.iter().filter(|e| match &e.kind
                {
                    Ev::Fs{ op : FsOp::Rename, origin : Origin::Ruler, path, path2 : Some(to), ok : true, .. } => !hist::in_ruler_dir(path) && hist::in_cache(to),
                    _ => false,
                }).count();
                if displaced > 0
                {
                    if let Some(s) = stats.as_deref_mut()
                    {
                        s.add("c08.displaced", displaced as u64);
                        let mut h = H64::new();
                        h.u64(shape_hash(&inv.rules)).u64(ops_hash(&runner.case.ops[..=inv.op_index])).u64(displaced as u64).u64(inv.is_build as u64);
                        s.distinct.insert(h.get());
                    }
                }
            },
            "C09" =>
            {
                vs.extend(hist::oracle_c09(&inv));
                if inv.goal.is_some()
                {
                    if let Ok(m) = &inv.model
                    {
                        let out_of_scope_present = inv.rules.iter().enumerate()
                            .filter(|(i, _)| !m.scope.contains(i))
                            .any(|(_, r)| r.targets.iter().any(|t| inv.before.is_file(t)));
                        if out_of_scope_present
                        {
                            if let Some(s) = stats.as_deref_mut()
                            {
                                s.inc("c09.goal_restricted_with_foreign_targets");
                                let mut h = H64::new();
                                h.u64(shape_hash(&inv.rules)).u64(ops_hash(&runner.case.ops[..=inv.op_index])).u64(m.scope.len() as u64).u64(inv.is_build as u64);
                                s.distinct.insert(h.get());
                            }
                        }
                    }
                }
            },
            "C10" =>
            {
                vs.extend(hist::oracle_c10_clean(&inv));
                let (v, obliged) = hist::oracle_c10_build(&inv, &runner.fresh, runner.cleaned_since_fresh);
                vs.extend(v);
                if let Some(s) = stats.as_deref_mut()
                {
                    if !inv.is_build && inv.res.verdict == Verdict::Ok
                    {
                        let moved = inv.scope_targets().iter().filter(|t| inv.before.is_file(t)).count();
                        if moved > 0 { s.inc("c10.cleans_that_moved_targets"); }
                    }
                    if obliged
                    {
                        s.inc("c10.builds_after_clean_with_obligation");
                        let mut h = H64::new();
                        h.u64(shape_hash(&inv.rules)).u64(ops_hash(&runner.case.ops[..=inv.op_index])).u64(banner_hash(&inv));
                        s.distinct.insert(h.get());
                    }
                }
            },
            "C20" =>
            {
                vs.extend(hist::oracle_c20(&inv));
                let kinds : BTreeSet<String> = inv.res.printed.iter().filter_map(|p| match p { Printed::Banner(k, _) => Some(k.clone()), _ => None }).collect();
                if kinds.len() >= 2
                {
                    if let Some(s) = stats.as_deref_mut()
                    {
                        s.inc("c20.builds_with_mixed_statuses");
                        let mut h = H64::new();
                        h.u64(shape_hash(&inv.rules)).u64(banner_hash(&inv));
                        s.distinct.insert(h.get());
                    }
                }
            },
            _ => {},
        }
        found.extend(vs);
        runner.absorb(&inv);
    }

    if let Some(s) = stats.as_deref_mut()
    {
        if prop == "C01" && nontrivial
        {
            s.distinct.insert(run_hash.get());
            s.inc("c01.histories_with_two_ok_builds_and_change");
        }
        s.end_run();
    }
    found
}

pub fn event_digest_text(k : &Ev) -> String
{
    match k
    {
        Ev::Fs{ op, origin, path, path2, ok, mutation, .. } =>
        {
            // the bytes of ruler's state files are not part of the digest (map order differs
            // between processes); their paths and the operations on them are
            format!("fs {:?} {:?} {} {:?} {} {:?}", op, origin, path, path2, ok, mutation.is_some())
        },
        Ev::CmdStart{ script, .. } => format!("cmd {:?}", script),
        Ev::CmdEnd{ codes, .. } => format!("cmdend {:?}", codes),
        other => format!("{:?}", other),
    }
}

/* Histories aimed at the region where files of equal content and equal age get mixed up: copy-like
   rules over 2-3 leaves whose contents come from a pool of 2-3 shared values; *epochs* of leaf
   edits/reverts (sometimes a clean of one target) each followed by a build. */
pub fn epoch_ops(rng : &mut Rng, leaves : &[String], targets : &[String], epochs : usize, clean_one_in : u64, policy : Option<&[Strategy]>) -> Vec<Op>
{
    let mut ops = vec![];
    let pool : Vec<&[u8]> = if rng.chance(1, 2) { vec![b"A", b"B"] } else { vec![b"A", b"B", b"C"] };
    let mut sched = |rng : &mut Rng| match policy
    {
        Some(p) => SchedSpec{ strategy : rng.pick(p).clone(), seed : 0 },
        None => SchedSpec::random(rng),
    };
    // what each leaf was set to in each epoch (None = never written by this generator), so that an
    // epoch can put all leaves back to an earlier state at once
    let mut states : Vec<Vec<Option<Vec<u8>>>> = vec![leaves.iter().map(|_| None).collect()];
    for e in 0..epochs
    {
        if e > 0
        {
            let mut now = states.last().unwrap().clone();
            if e >= 2 && rng.chance(1, 4)
            {
                now = states[rng.below((states.len() - 1) as u64) as usize].clone();
                for v in now.iter_mut() { if v.is_none() { *v = Some(rng.pick(&pool).to_vec()); } }
            }
            else
            {
                for v in now.iter_mut() { if rng.chance(3, 5) { *v = Some(rng.pick(&pool).to_vec()); } }
            }
            for (i, l) in leaves.iter().enumerate()
            {
                if now[i] != states.last().unwrap()[i] { if let Some(c) = &now[i] { ops.push(Op::Write{ path : l.clone(), content : c.clone() }); } }
            }
            states.push(now);
            if targets.len() > 0 && clean_one_in > 0 && rng.chance(1, clean_one_in)
            {
                let s = sched(rng);
                ops.push(Op::Clean{ goal : Some(rng.pick(targets).clone()), sched : s });
            }
        }
        let goal = if targets.len() > 0 && rng.chance(1, 8) { Some(rng.pick(targets).clone()) } else { None };
        let s = sched(rng);
        ops.push(Op::Build{ goal : goal, sched : s });
    }
    ops
}

pub fn epoch_gen_cfg(thorough : bool, rng : &mut Rng) -> GenCfg
{
    let mut g = GenCfg::base(thorough);
    g.copy_rules = true;
    g.shared_pool = true;
    g.empty_salts = true;
    g.failing = false;
    g.missing_leaves = false;
    g.hidden = false;
    g.twins = false;
    g.exec = rng.chance(1, 4);
    g.max_ops = 0;
    g.min_ops = 0;
    g.end_with_build = false;
    g.max_rules = rng.range(2, 5);
    g
}

// ---------------------------------------------------------------- minimisation

/* Make the schedules of a case explicit: run it, and replace every policy schedule by the
   recorded choice list. */
pub fn explicit_schedules(case : &Case) -> Case
{
    let mut runner = Runner::new(case);
    let mut out = case.clone();
    while !runner.done()
    {
        let i = runner.next_op;
        if let Some(inv) = runner.step()
        {
            let rec = SchedSpec::record(inv.res.record.clone());
            match &mut out.ops[i]
            {
                Op::Build{ sched, .. } | Op::Clean{ sched, .. } => *sched = rec,
                _ => {},
            }
            runner.absorb(&inv);
        }
    }
    out
}

fn remove_rule(case : &Case, identity : &(Vec<String>, Vec<String>, Vec<String>)) -> Case
{
    let mut c = case.clone();
    c.rules.retain(|r| r.identity() != *identity);
    for op in c.ops.iter_mut()
    {
        if let Op::SetRules{ rules } = op
        {
            rules.retain(|r| r.sorted_targets() != identity.0);
        }
    }
    c
}

/* Greedy delta debugging: keep a candidate iff `test` still reports the same signature. */
pub fn minimize(case : &Case, test : &dyn Fn(&Case) -> bool) -> Case
{
    minimize_with_budget(case, test, 600)
}

pub fn minimize_with_budget(case : &Case, test : &dyn Fn(&Case) -> bool, budget : usize) -> Case
{
    let mut best = case.clone();
    let mut budget = budget;
    let mut try_candidate = |cand : Case, best : &mut Case, budget : &mut usize| -> bool
    {
        // (a candidate costs what it takes to run: a 4 000-operation soak is ~100 ordinary histories)
        let cost = 1 + cand.ops.len() / 40;
        if *budget < cost { *budget = 0; return false; }
        *budget -= cost;
        if test(&cand) { *best = cand; true } else { false }
    };

    // 0. long histories: drop halves, quarters, ... before going one by one
    if best.ops.len() > 60
    {
        let mut chunk = best.ops.len() / 2;
        while chunk >= 8 && budget > 0
        {
            let mut start = 0;
            while start < best.ops.len() && budget > 0
            {
                let end = std::cmp::min(start + chunk, best.ops.len());
                let mut cand = best.clone();
                cand.ops.drain(start..end);
                if cand.ops.len() == 0 || !try_candidate(cand, &mut best, &mut budget) { start = end; }
            }
            chunk /= 2;
        }
    }

    // 1. operations, last to first, to a fixpoint
    loop
    {
        let mut progress = false;
        let mut i = best.ops.len();
        while i > 0
        {
            i -= 1;
            if best.ops.len() <= 1 { break; }
            let mut cand = best.clone();
            cand.ops.remove(i);
            if try_candidate(cand, &mut best, &mut budget) { progress = true; }
        }
        if !progress { break; }
    }

    // 2. rules
    let mut k = best.rules.len();
    while k > 0
    {
        k -= 1;
        if best.rules.len() <= 1 { break; }
        if k >= best.rules.len() { continue; }
        let id = best.rules[k].identity();
        let cand = remove_rule(&best, &id);
        try_candidate(cand, &mut best, &mut budget);
    }

    // 3. inside rules: lines, sources, targets
    for k in 0..best.rules.len()
    {
        let mut li = best.rules[k].lines.len();
        while li > 0
        {
            li -= 1;
            if let Line::Emit{ .. } = best.rules[k].lines[li] { continue; }
            let mut cand = best.clone();
            cand.rules[k].lines.remove(li);
            try_candidate(cand, &mut best, &mut budget);
        }
        let mut si = best.rules[k].sources.len();
        while si > 0
        {
            si -= 1;
            if best.rules[k].sources.len() <= 1 { break; }
            let mut cand = best.clone();
            let s = cand.rules[k].sources.remove(si);
            for l in cand.rules[k].lines.iter_mut()
            {
                if let Line::Emit{ inputs, .. } = l { inputs.retain(|x| *x != s); }
            }
            cand.rules[k].lines.retain(|l| match l { Line::FailIf{ input } => *input != s, _ => true });
            try_candidate(cand, &mut best, &mut budget);
        }
        let mut ti = best.rules[k].targets.len();
        while ti > 0
        {
            ti -= 1;
            if best.rules[k].targets.len() <= 1 { break; }
            let mut cand = best.clone();
            let t = cand.rules[k].targets.remove(ti);
            cand.rules[k].lines.retain(|l| match l { Line::Emit{ target, .. } => *target != t, _ => true });
            try_candidate(cand, &mut best, &mut budget);
        }
    }

    // 4. initial files
    let mut fi = best.files.len();
    while fi > 0
    {
        fi -= 1;
        let mut cand = best.clone();
        cand.files.remove(fi);
        try_candidate(cand, &mut best, &mut budget);
    }

    // 5. schedules: serial if possible, otherwise drop entries of the record
    for i in 0..best.ops.len()
    {
        let current = match &best.ops[i] { Op::Build{ sched, .. } | Op::Clean{ sched, .. } => sched.clone(), _ => continue };
        if current.strategy == Strategy::Serial { continue; }
        let mut cand = best.clone();
        set_sched(&mut cand.ops[i], SchedSpec::serial());
        if try_candidate(cand, &mut best, &mut budget) { continue; }
        if let Strategy::Record(list) = current.strategy
        {
            let mut list = list;
            let mut chunk = (list.len() + 1) / 2;
            while chunk >= 1 && list.len() > 0
            {
                let mut start = 0;
                let mut progress = false;
                while start < list.len()
                {
                    let end = std::cmp::min(start + chunk, list.len());
                    let mut shorter = list.clone();
                    shorter.drain(start..end);
                    let mut cand = best.clone();
                    set_sched(&mut cand.ops[i], SchedSpec::record(shorter.clone()));
                    if try_candidate(cand, &mut best, &mut budget)
                    {
                        list = shorter;
                        progress = true;
                    }
                    else
                    {
                        start = end;
                    }
                }
                if chunk == 1 && !progress { break; }
                chunk = if chunk == 1 { if progress { 1 } else { 0 } } else { (chunk + 1) / 2 };
                if chunk == 0 { break; }
            }
        }
    }

    // 6. knobs
    {
        let mut cand = best.clone();
        cand.knobs = Knobs{ clock : best.knobs.clock, ..Knobs::default() };
        try_candidate(cand, &mut best, &mut budget);
        let mut cand = best.clone();
        cand.rule_files = 1;
        try_candidate(cand, &mut best, &mut budget);
        let mut cand = best.clone();
        cand.rule_files = best.rule_files % 10;
        try_candidate(cand, &mut best, &mut budget);
    }

    best
}

pub fn set_sched(op : &mut Op, s : SchedSpec)
{
    match op
    {
        Op::Build{ sched, .. } | Op::Clean{ sched, .. } => *sched = s,
        _ => {},
    }
}

/* Turn raw violations of a history into reportable findings: one per signature, minimised. */
pub fn hist_findings(prop : &str, case : &Case, vs : Vec<Violation>, reported : &mut BTreeSet<String>) -> Vec<Found>
{
    let mut out = vec![];
    for v in vs
    {
        if v.prop != prop || !reported.insert(v.sig.clone())
        {
            continue;
        }
        let explicit = explicit_schedules(case);
        let base = if hist_run(prop, &explicit, None).iter().any(|x| x.sig == v.sig) { explicit } else { case.clone() };
        let sig = v.sig.clone();
        let p = prop.to_string();
        let test = move |c : &Case| hist_run(&p, c, None).iter().any(|x| x.sig == sig);
        let small = minimize(&base, &test);
        let detail = hist_run(prop, &small, None).into_iter().find(|x| x.sig == v.sig).map(|x| x.detail).unwrap_or(v.detail.clone());
        out.push(Found
        {
            prop : prop.to_string(),
            sig : v.sig.clone(),
            detail : detail,
            explain : small.to_j(),
            replay : Replay::Hist{ prop : prop.to_string(), case : small },
        });
    }
    out
}

// ---------------------------------------------------------------- dispatch

pub fn run_one(cfg : &Config, k : u64, stats : &mut Stats) -> Vec<Found>
{
    let seed = run_seed(cfg, k);
    match cfg.prop.as_str()
    {
        "C01" | "C02" | "C07" | "C08" | "C09" | "C10" | "C20" =>
        {
            let mut rng = Rng::derive(seed, 1);
            let gcfg = hist_gen_cfg(&cfg.prop, cfg.thorough, &mut rng);
            let case = Gen::new(seed, gcfg).case();
            if k < 3 * cfg.workers { stats.sample(case.to_j()); }
            let vs = hist_run(&cfg.prop, &case, Some(stats));
            if vs.iter().any(|v| v.prop == cfg.prop) { let mut rep = std::mem::take(&mut stats.reported); let f = hist_findings(&cfg.prop, &case, vs, &mut rep); stats.reported = rep; f } else { vec![] }
        },
        "C03" | "C04" | "C05" | "C06" => sched_engine::run_one(cfg, seed, k, stats),
        "C11" => crash_engine::run_one(cfg, seed, k, stats),
        "C16" => state_engine::run_one(cfg, seed, k, stats),
        "C17" => c17_engine::run_one(cfg, seed, k, stats),
        "C18" => pair_engine::run_one(cfg, seed, k, stats),
        "C19" => server_engine::run_one(cfg, seed, k, stats),
        _ => vec![],
    }
}

/* Replay: returns the signatures that fire. */
pub fn run_replay(r : &Replay) -> Vec<(String, String)>
{
    match r
    {
        Replay::Hist{ prop, case } =>
        {
            match prop.as_str()
            {
                "C03" | "C04" | "C05" => sched_engine::replay_hist(prop, case),
                _ => hist_run(prop, case, None).into_iter().filter(|v| v.prop == *prop).map(|v| (v.sig, v.detail)).collect(),
            }
        },
        Replay::Pair{ case, alt } => sched_engine::replay_pair(case, alt),
        Replay::Table{ case } => pair_engine::replay(case),
        Replay::Crash{ case, index, torn, second, recovery } => crash_engine::replay(case, *index, *torn, *second, recovery),
        Replay::State{ kind, bytes, expect_reject, read_chunk } => state_engine::replay_bytes(kind, bytes, *expect_reject, *read_chunk),
        Replay::StateRoundTrip{ kind, seed } => state_engine::replay_round_trip(kind, *seed),
        Replay::Server{ case, requests } => server_engine::replay(case, requests),
        Replay::C17{ case } => c17_engine::replay(case),
        Replay::Conformance => conform_engine::replay(),
        Replay::ConformanceCase{ case } => conform_engine::replay_case(case),
    }
}

/* Developer aid: print one generated history and what happened in it. */
pub fn debug_run(cfg : &Config, k : u64)
{
    let seed = run_seed(cfg, k);
    let mut rng = Rng::derive(seed, 1);
    let gcfg = hist_gen_cfg(&cfg.prop, cfg.thorough, &mut rng);
    let case = Gen::new(seed, gcfg).case();
    println!("{}", case.to_j().to_string());
    let mut runner = Runner::new(&case);
    while !runner.done()
    {
        if let Some(inv) = runner.step()
        {
            println!("op {} {} goal {:?}: {}  model: {:?}", inv.op_index, if inv.is_build { "build" } else { "clean" }, inv.goal, inv.res.verdict.short(),
                inv.model.as_ref().map(|m| format!("{:?}", m.outcomes.iter().map(|(i, o)| (*i, match o { super::model::Outcome::Built(_) => "built".to_string(), other => format!("{:?}", other) })).collect::<Vec<_>>())));
            for p in inv.res.printed.iter() { println!("    {:?}", p); }
            if std::env::var("VERIF_DEBUG_EVENTS").is_ok()
            {
                for e in inv.res.events.iter() { println!("      {} t{} {}", e.seq, e.tid, event_digest_text(&e.kind)); }
            }
            runner.absorb(&inv);
        }
    }
}

pub fn worker_main() -> i32
{
    let out_path = std::env::var("VERIF_OUT").unwrap_or("/dev/stdout".to_string());
    let mut out = match std::fs::OpenOptions::new().create(true).write(true).truncate(true).open(&out_path)
    {
        Ok(f) => f,
        Err(e) => { eprintln!("cannot open {}: {}", out_path, e); return 2; },
    };

    if let Ok(path) = std::env::var("VERIF_REPLAY")
    {
        let text = match std::fs::read_to_string(&path)
        {
            Ok(t) => t,
            Err(e) => { eprintln!("cannot read {}: {}", path, e); return 2; },
        };
        let (prop, sig, replay) = match replay_from_json(&text)
        {
            Some(x) => x,
            None => { eprintln!("cannot parse replay file {}", path); return 2; },
        };
        let fired = run_replay(&replay);
        let reproduced = fired.iter().any(|(s, _)| *s == sig);
        let j = J::obj()
            .set("t", J::s("replay"))
            .set("property", J::s(&prop))
            .set("signature", J::s(&sig))
            .set("reproduced", J::Bool(reproduced))
            .set("fired", J::Arr(fired.iter().map(|(s, d)| J::Arr(vec![J::s(s), J::s(d)])).collect()));
        writeln!(out, "{}", j.to_string()).unwrap();
        return 0;
    }

    let cfg = Config
    {
        prop : std::env::var("VERIF_PROP").unwrap_or("C01".to_string()),
        thorough : std::env::var("VERIF_TIER").map(|t| t == "thorough").unwrap_or(false),
        seed : env_u64("VERIF_SEED", 1),
        worker : env_u64("VERIF_WORKER", 0),
        workers : std::cmp::max(1, env_u64("VERIF_WORKERS", 1)),
        runs : env_u64("VERIF_RUNS", 100),
        max_findings : env_u64("VERIF_MAX_FINDINGS", 4) as usize,
        known : std::env::var("VERIF_KNOWN").map(|s| s.split(';').filter(|x| x.len() > 0).map(|x| x.to_string()).collect()).unwrap_or(vec![]),
    };

    // watchdog: a simulation that passes no scheduling point for two minutes is stuck on something
    // the simulator does not own (see rt.rs)
    std::thread::spawn(||
    {
        use std::sync::atomic::Ordering;
        let mut last = 0u64;
        let mut idle = 0u32;
        loop
        {
            std::thread::sleep(std::time::Duration::from_secs(1));
            let now = super::rt::SIM_STEPS.load(Ordering::Relaxed);
            if super::rt::SIM_ACTIVE.load(Ordering::Relaxed) && now == last { idle += 1; } else { idle = 0; }
            last = now;
            if idle >= 120
            {
                eprintln!("STUCK: a simulated thread has been blocked for 120 s outside the scheduler seam (thread/mpsc in build.rs); the changed code synchronises rule threads through something the simulator does not own");
                std::process::exit(3);
            }
        }
    });

    let mut stats = Stats::new();
    stats.want_digests = std::env::var("VERIF_DIGEST").is_ok();
    let mut sigs_seen : BTreeSet<String> = BTreeSet::new();

    if cfg.prop == "H3"
    {
        let cp = |t : &str, s : &str| SRule{ targets : vec![t.to_string()], sources : vec![s.to_string()], lines : vec![Line::Emit{ target : t.to_string(), salt : "".to_string(), inputs : vec![s.to_string()], exec : false }] };
        let w = |p : &str, c : &str| Op::Write{ path : p.to_string(), content : c.as_bytes().to_vec() };
        let b = || Op::Build{ goal : None, sched : SchedSpec::serial() };
        let mut knobs = Knobs::default();
        knobs.clock = ClockMode::Tick;
        let case = Case
        {
            rules : vec![cp("x", "s1"), cp("y", "s2"), cp("z", "x")],
            files : vec![("s1".to_string(), b"B".to_vec()), ("s2".to_string(), b"A".to_vec())],
            dirs : vec![], rule_files : 1,
            ops : vec![b(), w("s1", "A"), w("s2", "B"), b(), w("s2", "C"), b(), w("s1", "B"), b()],
            knobs : knobs,
        };
        for v in pair_engine::run_pair(&case, None) { println!("{} | {}", v.sig, v.detail); }
        let mut runner = Runner::new(&case);
        while !runner.done()
        {
            if let Some(inv) = runner.step()
            {
                println!("op {} {}", inv.op_index, inv.res.verdict.short());
                for p in inv.res.printed.iter() { println!("    {:?}", p); }
                for f in ["x", "y", "z"] { println!("    {} = {:?} mtime {:?}", f, inv.after.read(f).map(|c| String::from_utf8_lossy(&c).to_string()), inv.after.meta(f)); }
                runner.absorb(&inv);
            }
        }
        return 0;
    }

    if cfg.prop == "SORTCHK"
    {
        let (n, bad) = sort_crosscheck(env_u64("VERIF_SORT_N", 3) as usize);
        println!("sort cross-check: {} (graph, naming, goal) triples, {} disagreements", n, bad.len());
        for b in bad { println!("  {}", b); }
        return 0;
    }

    if cfg.prop == "CONFORM"
    {
        let mut found = conform_engine::run(&mut stats);
        found.extend(conform_engine::run_differential(&mut stats, cfg.runs, cfg.seed));
        for f in found
        {
            let j = replay_to_json(&f).set("t", J::s("violation"));
            writeln!(out, "{}", j.to_string()).unwrap();
        }
        writeln!(out, "{}", stats.to_j().to_string()).unwrap();
        return 0;
    }

    if let Ok(v) = std::env::var("VERIF_DEBUG_RUN")
    {
        let k : u64 = v.parse().unwrap_or(0);
        debug_run(&cfg, k);
        return 0;
    }

    let mut k = cfg.worker;
    while k < cfg.runs
    {
        let found = run_one(&cfg, k, &mut stats);
        for f in found
        {
            if sigs_seen.insert(f.sig.clone())
            {
                let j = replay_to_json(&f).set("t", J::s("violation")).set("run", J::Int(k as i64));
                writeln!(out, "{}", j.to_string()).unwrap();
                out.flush().unwrap();
            }
        }
        let unlisted = sigs_seen.iter().filter(|s| !cfg.known.contains(s)).count();
        if unlisted >= cfg.max_findings
        {
            break;
        }
        k += cfg.workers;
    }
    writeln!(out, "{}", stats.to_j().to_string()).unwrap();
    0
}

/* Developer aid (not a registered check; C12 is outside this technique): compare ruler's dependency
   analysis with the reference model on every digraph of up to `n` single-target rules, under every
   assignment of names (which decides ruler's traversal order). Used to validate the `fix:` to sort.rs. */
pub fn sort_crosscheck(n : usize) -> (u64, Vec<String>)
{
    use crate::rule::Rule;
    use crate::sort::{topological_sort, topological_sort_all, SourceIndex};
    let mut checked = 0u64;
    let mut bad = vec![];
    let names_all = ["a", "b", "c", "d", "e"];
    let mut perm : Vec<usize> = (0..n).collect();
    let mut perms = vec![];
    fn permute(k : usize, perm : &mut Vec<usize>, out : &mut Vec<Vec<usize>>)
    {
        if k == perm.len() { out.push(perm.clone()); return; }
        for i in k..perm.len() { perm.swap(k, i); permute(k + 1, perm, out); perm.swap(k, i); }
    }
    permute(0, &mut perm, &mut perms);
    let pairs : Vec<(usize, usize)> = (0..n).flat_map(|i| (0..n).map(move |j| (i, j))).collect();
    for mask in 0u64..(1u64 << pairs.len())
    {
        for perm in perms.iter()
        {
            let name = |i : usize| names_all[perm[i]].to_string();
            let mut srules = vec![];
            for i in 0..n
            {
                let mut sources = vec![format!("leaf{}", i)];
                for (bit, (a, b)) in pairs.iter().enumerate()
                {
                    if *a == i && (mask >> bit) & 1 == 1 { sources.push(name(*b)); }
                }
                srules.push(SRule{ targets : vec![name(i)], sources : sources, lines : vec![] });
            }
            let rules : Vec<Rule> = srules.iter().map(|r| Rule::new(r.targets.clone(), r.sources.clone(), r.command_lines())).collect();
            for goal in std::iter::once(None).chain((0..n).map(|g| Some(name(g))))
            {
                checked += 1;
                let expected = super::model::scope_of(&srules, goal.as_ref().map(|s| s.as_str()));
                let got = match &goal
                {
                    None => topological_sort_all(rules.clone()),
                    Some(g) => topological_sort(rules.clone(), g),
                };
                match (&expected, &got)
                {
                    (Ok(scope), Ok(pack)) =>
                    {
                        let want : BTreeSet<String> = scope.iter().map(|i| srules[*i].targets[0].clone()).collect();
                        let have : Vec<String> = pack.nodes.iter().map(|nd| nd.targets[0].clone()).collect();
                        let have_set : BTreeSet<String> = have.iter().cloned().collect();
                        let mut ok = want == have_set && have.len() == have_set.len();
                        for (pos, nd) in pack.nodes.iter().enumerate()
                        {
                            for si in nd.source_indices.iter()
                            {
                                if let SourceIndex::Pair(i, _) = si { if *i >= pos { ok = false; } }
                            }
                        }
                        if !ok && bad.len() < 5 { bad.push(format!("wrong plan: mask {} perm {:?} goal {:?}: {:?}", mask, perm, goal, have)); }
                    },
                    (Err(_), Err(_)) => {},
                    (e, g) => if bad.len() < 5 { bad.push(format!("acceptance differs: mask {} perm {:?} goal {:?}: model {:?} ruler {:?}", mask, perm, goal, e.as_ref().map(|_| ()), g.as_ref().map(|_| ()).map_err(|e| format!("{:?}", e)))); },
                }
            }
        }
    }
    (checked, bad)
}
