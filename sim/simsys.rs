// simsys.rs — SimSystem: in-memory POSIX-like disk + simulated clock + command interpreter,
// implementing ruler's `System` trait.  Every call is a scheduling point (rt::sim_yield) and is
// logged with its origin; every mutation has an index and can be snapshotted (crash points).

use std::collections::BTreeMap;
use std::fmt;
use std::io;
use std::sync::{Arc, Mutex, MutexGuard};
use std::time::{Duration, SystemTime};

use serde::{Serialize, Deserialize};
use termcolor::Color;

use crate::system::{System, SystemError, CommandScript, CommandLineOutput};
use crate::printer::Printer;

use super::rt::{self, Ev, FsOp, Origin, FileMap};

// ---------------------------------------------------------------- disk

#[derive(Clone, Debug)]
pub struct Inode
{
    pub data : Arc<Vec<u8>>,
    pub mtime : u64,
    pub exec : bool,
}

#[derive(Clone, Debug, PartialEq)]
pub enum Entry
{
    Dir,
    File(u64),
}

#[derive(Clone, Debug)]
pub struct Disk
{
    pub paths : BTreeMap<String, Entry>,
    pub inodes : BTreeMap<u64, Inode>,
    pub next_inode : u64,
}

/* Serialisable image of a disk (for replay files): no inode identities, which nothing observes. */
#[derive(Clone, Debug, PartialEq, Serialize, Deserialize)]
pub struct DiskImage
{
    pub dirs : Vec<String>,
    pub files : Vec<(String, Vec<u8>, u64, bool)>,
}

fn parent_of(path : &str) -> &str
{
    match path.rfind('/')
    {
        Some(i) => &path[..i],
        None => "",
    }
}

impl Disk
{
    pub fn new() -> Disk
    {
        Disk{ paths : BTreeMap::new(), inodes : BTreeMap::new(), next_inode : 1 }
    }

    pub fn is_dir(&self, path : &str) -> bool
    {
        path == "" || path == "." || self.paths.get(path) == Some(&Entry::Dir)
    }

    pub fn is_file(&self, path : &str) -> bool
    {
        match self.paths.get(path)
        {
            Some(Entry::File(_)) => true,
            _ => false,
        }
    }

    pub fn inode_of(&self, path : &str) -> Option<u64>
    {
        match self.paths.get(path)
        {
            Some(Entry::File(i)) => Some(*i),
            _ => None,
        }
    }

    pub fn read(&self, path : &str) -> Option<Arc<Vec<u8>>>
    {
        self.inode_of(path).map(|i| self.inodes[&i].data.clone())
    }

    pub fn meta(&self, path : &str) -> Option<(u64, bool)>
    {
        self.inode_of(path).map(|i| (self.inodes[&i].mtime, self.inodes[&i].exec))
    }

    /* open(O_CREAT|O_TRUNC): same inode when the file exists */
    pub fn create_file(&mut self, path : &str, mtime : u64) -> Result<u64, SystemError>
    {
        if path == ""
        {
            return Err(SystemError::Weird);
        }
        if !self.is_dir(parent_of(path))
        {
            return Err(SystemError::NotFound);
        }
        match self.paths.get(path)
        {
            Some(Entry::Dir) => Err(SystemError::Weird),
            Some(Entry::File(i)) =>
            {
                let i = *i;
                let node = self.inodes.get_mut(&i).unwrap();
                node.data = Arc::new(vec![]);
                node.mtime = mtime;
                Ok(i)
            },
            None =>
            {
                let i = self.next_inode;
                self.next_inode += 1;
                self.inodes.insert(i, Inode{ data : Arc::new(vec![]), mtime : mtime, exec : false });
                self.paths.insert(path.to_string(), Entry::File(i));
                Ok(i)
            },
        }
    }

    pub fn write_at(&mut self, inode : u64, pos : usize, buf : &[u8], mtime : u64)
    {
        if let Some(node) = self.inodes.get_mut(&inode)
        {
            let data = Arc::make_mut(&mut node.data);
            if data.len() < pos
            {
                data.resize(pos, 0);
            }
            let overlap = std::cmp::min(data.len() - pos, buf.len());
            data[pos..pos + overlap].copy_from_slice(&buf[..overlap]);
            data.extend_from_slice(&buf[overlap..]);
            node.mtime = mtime;
        }
    }

    /* whole-file convenience used by the user/driver and the command interpreter */
    pub fn put_file(&mut self, path : &str, content : &[u8], mtime : u64) -> Result<(), SystemError>
    {
        let i = self.create_file(path, mtime)?;
        self.write_at(i, 0, content, mtime);
        Ok(())
    }

    pub fn create_dir(&mut self, path : &str) -> Result<(), SystemError>
    {
        if self.paths.contains_key(path) || path == ""
        {
            return Err(SystemError::Weird);
        }
        if !self.is_dir(parent_of(path))
        {
            return Err(SystemError::NotFound);
        }
        self.paths.insert(path.to_string(), Entry::Dir);
        Ok(())
    }

    pub fn rename(&mut self, from : &str, to : &str) -> Result<(), SystemError>
    {
        match self.paths.get(from).cloned()
        {
            None => Err(SystemError::NotFound),
            Some(Entry::File(i)) =>
            {
                if !self.is_dir(parent_of(to))
                {
                    return Err(SystemError::NotFound);
                }
                if self.is_dir(to)
                {
                    return Err(SystemError::Weird);
                }
                if from == to
                {
                    return Ok(());
                }
                self.paths.remove(from);
                if let Some(Entry::File(old)) = self.paths.insert(to.to_string(), Entry::File(i))
                {
                    // the replaced file loses its last name; open handles keep the inode alive
                    let _ = old;
                }
                Ok(())
            },
            Some(Entry::Dir) =>
            {
                if !self.is_dir(parent_of(to))
                {
                    return Err(SystemError::NotFound);
                }
                if self.paths.contains_key(to)
                {
                    return Err(SystemError::Weird);
                }
                let prefix = format!("{}/", from);
                let moved : Vec<(String, Entry)> = self.paths.iter()
                    .filter(|(p, _)| *p == from || p.starts_with(&prefix))
                    .map(|(p, e)| (p.clone(), e.clone())).collect();
                for (p, e) in moved
                {
                    self.paths.remove(&p);
                    let np = format!("{}{}", to, &p[from.len()..]);
                    self.paths.insert(np, e);
                }
                Ok(())
            },
        }
    }

    pub fn remove_file(&mut self, path : &str) -> Result<(), SystemError>
    {
        match self.paths.get(path)
        {
            Some(Entry::File(_)) => { self.paths.remove(path); Ok(()) },
            Some(Entry::Dir) => Err(SystemError::Weird),
            None => Err(SystemError::NotFound),
        }
    }

    pub fn remove_tree(&mut self, path : &str)
    {
        let prefix = format!("{}/", path);
        let doomed : Vec<String> = self.paths.keys()
            .filter(|p| *p == path || p.starts_with(&prefix)).cloned().collect();
        for p in doomed
        {
            self.paths.remove(&p);
        }
    }

    pub fn list_dir(&self, path : &str) -> Result<Vec<String>, SystemError>
    {
        if self.is_file(path)
        {
            return Err(SystemError::ExpectedDirFoundFile);
        }
        if !self.is_dir(path)
        {
            return Err(SystemError::NotFound);
        }
        let prefix = if path == "" || path == "." { "".to_string() } else { format!("{}/", path) };
        let mut out = vec![];
        for p in self.paths.keys()
        {
            if p.starts_with(&prefix) && p.len() > prefix.len() && !p[prefix.len()..].contains('/')
            {
                out.push(p.clone());
            }
        }
        out.sort();
        Ok(out)
    }

    /* drop inodes that have no name any more (call only when no handle is open) */
    pub fn gc(&mut self)
    {
        let mut live = std::collections::BTreeSet::new();
        for e in self.paths.values()
        {
            if let Entry::File(i) = e
            {
                live.insert(*i);
            }
        }
        self.inodes.retain(|i, _| live.contains(i));
    }

    pub fn files_under(&self, dir : &str) -> Vec<(String, Arc<Vec<u8>>)>
    {
        let prefix = format!("{}/", dir);
        let mut out = vec![];
        for (p, e) in self.paths.iter()
        {
            if let Entry::File(i) = e
            {
                if p.starts_with(&prefix)
                {
                    out.push((p.clone(), self.inodes[i].data.clone()));
                }
            }
        }
        out
    }

    /* every regular file outside `ruler_dir`: path -> (content, exec) */
    pub fn workspace(&self, ruler_dir : &str) -> FileMap
    {
        let prefix = format!("{}/", ruler_dir);
        let mut out = BTreeMap::new();
        for (p, e) in self.paths.iter()
        {
            if let Entry::File(i) = e
            {
                if !p.starts_with(&prefix)
                {
                    let n = &self.inodes[i];
                    out.insert(p.clone(), (n.data.clone(), n.exec));
                }
            }
        }
        out
    }

    pub fn file_count(&self) -> usize
    {
        self.paths.values().filter(|e| match e { Entry::File(_) => true, _ => false }).count()
    }

    pub fn image(&self) -> DiskImage
    {
        let mut dirs = vec![];
        let mut files = vec![];
        for (p, e) in self.paths.iter()
        {
            match e
            {
                Entry::Dir => dirs.push(p.clone()),
                Entry::File(i) =>
                {
                    let n = &self.inodes[i];
                    files.push((p.clone(), (*n.data).clone(), n.mtime, n.exec));
                },
            }
        }
        DiskImage{ dirs, files }
    }

    pub fn from_image(img : &DiskImage) -> Disk
    {
        let mut d = Disk::new();
        for p in img.dirs.iter()
        {
            d.paths.insert(p.clone(), Entry::Dir);
        }
        for (p, data, mtime, exec) in img.files.iter()
        {
            let i = d.next_inode;
            d.next_inode += 1;
            d.inodes.insert(i, Inode{ data : Arc::new(data.clone()), mtime : *mtime, exec : *exec });
            d.paths.insert(p.clone(), Entry::File(i));
        }
        d
    }
}

// ---------------------------------------------------------------- world

#[derive(Clone, Copy, Debug, PartialEq, Serialize, Deserialize)]
pub enum ClockMode
{
    Distinct,   // every create/write gets a fresh, strictly increasing timestamp
    Tick,       // the clock only advances between user actions and ruler invocations
    /* every create/write gets a fresh timestamp, distinct from all others but in no particular
       order (clock set back, files restored with their old dates, another machine's clock): the
       properties assume distinct modification times, not increasing ones */
    Unordered,
}

#[derive(Clone, Debug, PartialEq, Serialize, Deserialize)]
pub struct Knobs
{
    pub read_chunk : usize,     // 0 = unlimited
    pub write_chunk : usize,    // 0 = unlimited
    pub yield_on_read : bool,
    pub clock : ClockMode,
}

impl Knobs
{
    pub fn default() -> Knobs
    {
        Knobs{ read_chunk : 0, write_chunk : 0, yield_on_read : false, clock : ClockMode::Distinct }
    }
}

#[derive(Clone, Debug)]
pub struct CrashPoint
{
    pub index : u32,
    pub op : FsOp,
    pub origin : Origin,
    pub path : String,
    /* disk as it is just before mutation `index` is applied */
    pub before : Disk,
    /* for writes: the inode written and the bytes of this write call (for torn variants) */
    pub write : Option<(u64, usize, Arc<Vec<u8>>)>,
    pub clock : u64,
}

pub struct WorldInner
{
    pub disk : Disk,
    pub clock : u64,
    pub mutations : u32,
    pub crash_points : Option<Vec<CrashPoint>>,
}

pub struct WorldShared
{
    m : Mutex<WorldInner>,
    pub knobs : Knobs,
    pub ruler_dir : String,
}

#[derive(Clone)]
pub struct World(pub Arc<WorldShared>);

thread_local!
{
    static IN_COMMAND : std::cell::Cell<bool> = std::cell::Cell::new(false);
}

fn origin_now() -> Origin
{
    if IN_COMMAND.with(|c| c.get()) { Origin::Command } else { Origin::Ruler }
}

impl World
{
    pub fn new(knobs : Knobs, ruler_dir : &str) -> World
    {
        World(Arc::new(WorldShared
        {
            m : Mutex::new(WorldInner{ disk : Disk::new(), clock : 1_000_000, mutations : 0, crash_points : None }),
            knobs : knobs,
            ruler_dir : ruler_dir.to_string(),
        }))
    }

    pub fn from_disk(knobs : Knobs, ruler_dir : &str, disk : Disk, clock : u64) -> World
    {
        World(Arc::new(WorldShared
        {
            m : Mutex::new(WorldInner{ disk : disk, clock : clock, mutations : 0, crash_points : None }),
            knobs : knobs,
            ruler_dir : ruler_dir.to_string(),
        }))
    }

    pub fn lock(&self) -> MutexGuard<'_, WorldInner>
    {
        match self.0.m.lock() { Ok(g) => g, Err(p) => p.into_inner() }
    }

    pub fn system(&self) -> SimSystem
    {
        SimSystem{ w : self.clone() }
    }

    pub fn knobs(&self) -> &Knobs { &self.0.knobs }
    pub fn ruler_dir(&self) -> &str { &self.0.ruler_dir }

    /* time passes: between user actions and ruler invocations */
    pub fn tick(&self)
    {
        let mut g = self.lock();
        g.clock += 1;
    }

    /* where on the time axis this workspace lives (before anything is written) */
    pub fn set_clock(&self, now : u64)
    {
        self.lock().clock = now;
    }

    pub fn snapshot(&self) -> (Disk, u64)
    {
        let g = self.lock();
        (g.disk.clone(), g.clock)
    }

    pub fn restore(&self, snap : &(Disk, u64))
    {
        let mut g = self.lock();
        g.disk = snap.0.clone();
        g.clock = snap.1;
    }

    pub fn start_crash_recording(&self)
    {
        let mut g = self.lock();
        g.mutations = 0;
        g.crash_points = Some(vec![]);
    }

    pub fn take_crash_points(&self) -> Vec<CrashPoint>
    {
        let mut g = self.lock();
        g.crash_points.take().unwrap_or(vec![])
    }

    // ---- user-level operations (not scheduled, not attributed to ruler)

    pub fn user_write(&self, path : &str, content : &[u8])
    {
        let mode = self.0.knobs.clock;
        let mut g = self.lock();
        g.clock += 1;
        let t = if mode == ClockMode::Unordered { g.stamp(mode) } else { g.clock };
        let _ = g.disk.put_file(path, content, t);
    }

    pub fn user_chmod(&self, path : &str, exec : bool)
    {
        let mut g = self.lock();
        if let Some(i) = g.disk.inode_of(path)
        {
            g.disk.inodes.get_mut(&i).unwrap().exec = exec;
        }
    }

    /* `mv from to`: the file keeps its modification time and permission */
    pub fn user_rename(&self, from : &str, to : &str)
    {
        let mut g = self.lock();
        g.clock += 1;
        let _ = g.disk.rename(from, to);
    }

    /* overwrite without the courtesy of a new timestamp bookkeeping: used for damaged state files */
    pub fn user_put_raw(&self, path : &str, content : &[u8])
    {
        let mode = self.0.knobs.clock;
        let mut g = self.lock();
        g.clock += 1;
        let t = if mode == ClockMode::Unordered { g.stamp(mode) } else { g.clock };
        let _ = g.disk.put_file(path, content, t);
    }

    pub fn user_delete(&self, path : &str)
    {
        let mut g = self.lock();
        g.clock += 1;
        let _ = g.disk.remove_file(path);
    }

    pub fn user_delete_tree(&self, path : &str)
    {
        let mut g = self.lock();
        g.clock += 1;
        g.disk.remove_tree(path);
    }

    /* `find . -type d -empty -delete`, sparing `keep` and what lies under it */
    pub fn user_prune_empty_dirs(&self, keep : &str)
    {
        let mut g = self.lock();
        g.clock += 1;
        let keep_prefix = format!("{}/", keep);
        let dirs : Vec<String> = g.disk.paths.iter().filter(|(_, e)| **e == Entry::Dir).map(|(p, _)| p.clone()).collect();
        for d in dirs.iter().rev()
        {
            if d == keep || d.starts_with(&keep_prefix) || keep.starts_with(&format!("{}/", d)) { continue; }
            let prefix = format!("{}/", d);
            if !g.disk.paths.keys().any(|p| p.starts_with(&prefix)) { g.disk.paths.remove(d); }
        }
    }

    pub fn user_mkdir(&self, path : &str)
    {
        let mut g = self.lock();
        let _ = g.disk.create_dir(path);
    }

    pub fn read(&self, path : &str) -> Option<Arc<Vec<u8>>>
    {
        self.lock().disk.read(path)
    }

    pub fn gc(&self)
    {
        self.lock().disk.gc();
    }
}

impl WorldInner
{
    fn stamp(&mut self, mode : ClockMode) -> u64
    {
        match mode
        {
            ClockMode::Distinct => { self.clock += 1; self.clock },
            ClockMode::Tick => self.clock,
            ClockMode::Unordered =>
            {
                // a bijection on 40-bit numbers (odd multiplier), so distinct counters give distinct stamps
                self.clock += 1;
                (self.clock & !0xffff_ffff_ffffu64) + 1_000_000 + (self.clock.wrapping_mul(0x9E37_79B9_7F4A_7C15) & 0xff_ffff_ffff)
            },
        }
    }

    /* bookkeeping common to all mutations; returns the mutation index */
    fn mutation(&mut self, op : FsOp, origin : Origin, path : &str, write : Option<(u64, usize, Arc<Vec<u8>>)>) -> u32
    {
        let index = self.mutations;
        self.mutations += 1;
        if self.crash_points.is_some()
        {
            let cp = CrashPoint
            {
                index : index,
                op : op,
                origin : origin,
                path : path.to_string(),
                before : self.disk.clone(),
                write : write,
                clock : self.clock,
            };
            self.crash_points.as_mut().unwrap().push(cp);
        }
        index
    }
}

// ---------------------------------------------------------------- SimSystem

#[derive(Clone)]
pub struct SimSystem
{
    pub w : World,
}

pub struct SimFile
{
    w : World,
    inode : u64,
    pos : usize,
    path : String,
    writable : bool,
}

impl fmt::Debug for SimFile
{
    fn fmt(&self, f : &mut fmt::Formatter) -> fmt::Result
    {
        write!(f, "SimFile({}, inode {}, pos {})", self.path, self.inode, self.pos)
    }
}

impl io::Read for SimFile
{
    fn read(&mut self, buf : &mut [u8]) -> io::Result<usize>
    {
        if self.w.knobs().yield_on_read
        {
            rt::sim_yield();
        }
        let g = self.w.lock();
        let data = match g.disk.inodes.get(&self.inode)
        {
            Some(n) => n.data.clone(),
            None => return Ok(0),
        };
        drop(g);
        if self.pos >= data.len()
        {
            return Ok(0);
        }
        let mut n = std::cmp::min(buf.len(), data.len() - self.pos);
        let chunk = self.w.knobs().read_chunk;
        if chunk > 0
        {
            n = std::cmp::min(n, chunk);
        }
        buf[..n].copy_from_slice(&data[self.pos..self.pos + n]);
        self.pos += n;
        Ok(n)
    }
}

impl io::Write for SimFile
{
    fn write(&mut self, buf : &[u8]) -> io::Result<usize>
    {
        if !self.writable
        {
            return Err(io::Error::new(io::ErrorKind::Other, "file not open for writing"));
        }
        if buf.len() == 0
        {
            return Ok(0);
        }
        rt::sim_yield();
        let chunk = self.w.knobs().write_chunk;
        let n = if chunk > 0 { std::cmp::min(chunk, buf.len()) } else { buf.len() };
        let origin = origin_now();
        let index =
        {
            let mut g = self.w.lock();
            let index = g.mutation(FsOp::Write, origin, &self.path, Some((self.inode, self.pos, Arc::new(buf[..n].to_vec()))));
            let t = g.stamp(self.w.knobs().clock);
            g.disk.write_at(self.inode, self.pos, &buf[..n], t);
            index
        };
        self.pos += n;
        rt::sim_record(Ev::Fs{ op : FsOp::Write, origin, path : self.path.clone(), path2 : None, ok : true, mutation : Some(index), data : None, replaced : None });
        Ok(n)
    }

    fn flush(&mut self) -> io::Result<()>
    {
        Ok(())
    }
}

fn to_system_time(mtime : u64) -> SystemTime
{
    SystemTime::UNIX_EPOCH + Duration::from_micros(mtime)
}

impl SimSystem
{
    fn log(&self, op : FsOp, path : &str, path2 : Option<&str>, ok : bool, mutation : Option<u32>)
    {
        rt::sim_record(Ev::Fs
        {
            op : op,
            origin : origin_now(),
            path : path.to_string(),
            path2 : path2.map(|s| s.to_string()),
            ok : ok,
            mutation : mutation,
            data : None,
            replaced : None,
        });
    }

    fn log_full(&self, op : FsOp, path : &str, path2 : Option<&str>, ok : bool, mutation : Option<u32>,
        data : Option<Arc<Vec<u8>>>, replaced : Option<Arc<Vec<u8>>>)
    {
        rt::sim_record(Ev::Fs
        {
            op : op,
            origin : origin_now(),
            path : path.to_string(),
            path2 : path2.map(|s| s.to_string()),
            ok : ok,
            mutation : mutation,
            data : data,
            replaced : replaced,
        });
    }
}

impl System for SimSystem
{
    type File = SimFile;

    fn open(&self, path : &str) -> Result<SimFile, SystemError>
    {
        rt::sim_yield();
        let r =
        {
            let g = self.w.lock();
            match g.disk.paths.get(path)
            {
                Some(Entry::File(i)) => Ok(*i),
                Some(Entry::Dir) => Err(SystemError::Weird),
                None => Err(SystemError::NotFound),
            }
        };
        self.log(FsOp::Open, path, None, r.is_ok(), None);
        r.map(|i| SimFile{ w : self.w.clone(), inode : i, pos : 0, path : path.to_string(), writable : false })
    }

    fn create_file(&mut self, path : &str) -> Result<SimFile, SystemError>
    {
        rt::sim_yield();
        let (r, index, replaced) =
        {
            let mut g = self.w.lock();
            let index = g.mutation(FsOp::CreateFile, origin_now(), path, None);
            let replaced = g.disk.read(path);
            let t = g.stamp(self.w.knobs().clock);
            (g.disk.create_file(path, t), index, replaced)
        };
        self.log_full(FsOp::CreateFile, path, None, r.is_ok(), Some(index), None, replaced);
        r.map(|i| SimFile{ w : self.w.clone(), inode : i, pos : 0, path : path.to_string(), writable : true })
    }

    fn create_dir(&mut self, path : &str) -> Result<(), SystemError>
    {
        rt::sim_yield();
        let (r, index) =
        {
            let mut g = self.w.lock();
            let index = g.mutation(FsOp::CreateDir, origin_now(), path, None);
            (g.disk.create_dir(path), index)
        };
        self.log(FsOp::CreateDir, path, None, r.is_ok(), Some(index));
        r
    }

    fn is_dir(&self, path : &str) -> bool
    {
        rt::sim_yield();
        let r = self.w.lock().disk.is_dir(path);
        self.log(FsOp::IsDir, path, None, r, None);
        r
    }

    fn is_file(&self, path : &str) -> bool
    {
        rt::sim_yield();
        let r = self.w.lock().disk.is_file(path);
        self.log(FsOp::IsFile, path, None, r, None);
        r
    }

    fn remove_file(&mut self, path : &str) -> Result<(), SystemError>
    {
        self.w.lock().disk.remove_file(path)
    }

    fn remove_dir(&mut self, path : &str) -> Result<(), SystemError>
    {
        let mut g = self.w.lock();
        if g.disk.is_dir(path) { g.disk.remove_tree(path); Ok(()) } else { Err(SystemError::NotFound) }
    }

    fn list_dir(&self, path : &str) -> Result<Vec<String>, SystemError>
    {
        rt::sim_yield();
        let r = self.w.lock().disk.list_dir(path);
        self.log(FsOp::ListDir, path, None, r.is_ok(), None);
        r
    }

    fn rename(&mut self, from : &str, to : &str) -> Result<(), SystemError>
    {
        rt::sim_yield();
        let (r, index, data, replaced) =
        {
            let mut g = self.w.lock();
            let index = g.mutation(FsOp::Rename, origin_now(), from, None);
            let data = g.disk.read(from);
            let replaced = g.disk.read(to);
            (g.disk.rename(from, to), index, data, replaced)
        };
        self.log_full(FsOp::Rename, from, Some(to), r.is_ok(), Some(index), data, replaced);
        r
    }

    fn get_modified(&self, path : &str) -> Result<SystemTime, SystemError>
    {
        rt::sim_yield();
        let r = match self.w.lock().disk.meta(path)
        {
            Some((mtime, _)) => Ok(to_system_time(mtime)),
            None => Err(SystemError::MetadataNotFound),
        };
        self.log(FsOp::GetModified, path, None, r.is_ok(), None);
        r
    }

    fn is_executable(&self, path : &str) -> Result<bool, SystemError>
    {
        rt::sim_yield();
        let r = match self.w.lock().disk.meta(path)
        {
            Some((_, exec)) => Ok(exec),
            None => Err(SystemError::MetadataNotFound),
        };
        self.log(FsOp::IsExecutable, path, None, r.is_ok(), None);
        r
    }

    fn set_is_executable(&mut self, path : &str, executable : bool) -> Result<(), SystemError>
    {
        rt::sim_yield();
        let (r, index) =
        {
            let mut g = self.w.lock();
            let index = g.mutation(FsOp::SetExecutable, origin_now(), path, None);
            let r = match g.disk.inode_of(path)
            {
                Some(i) => { g.disk.inodes.get_mut(&i).unwrap().exec = executable; Ok(()) },
                None => Err(SystemError::MetadataNotFound),
            };
            (r, index)
        };
        self.log(FsOp::SetExecutable, path, None, r.is_ok(), Some(index));
        r
    }

    fn execute_command(&mut self, command_script : CommandScript) -> Vec<Result<CommandLineOutput, SystemError>>
    {
        rt::sim_yield();
        let ws = Arc::new(self.w.lock().disk.workspace(self.w.ruler_dir()));
        rt::sim_record(Ev::CmdStart{ script : command_script.lines.clone(), workspace : ws });

        IN_COMMAND.with(|c| c.set(true));
        let mut out = vec![];
        let mut codes = vec![];
        for line in command_script.lines.iter()
        {
            let o = self.run_line(line);
            let code = o.code.unwrap_or(-1);
            codes.push(code);
            out.push(Ok(o));
            // like RealSystem: every line is its own shell invocation, a failing line does not
            // stop the following ones
        }
        IN_COMMAND.with(|c| c.set(false));

        rt::sim_record(Ev::CmdEnd{ script : command_script.lines.clone(), codes : codes });
        out
    }
}

fn cmd_ok() -> CommandLineOutput
{
    CommandLineOutput{ out : "".to_string(), err : "".to_string(), code : Some(0), success : true }
}

fn cmd_err(code : i32, msg : String) -> CommandLineOutput
{
    CommandLineOutput{ out : "".to_string(), err : msg, code : Some(code), success : false }
}

impl SimSystem
{
    /* The command language (see DESIGN §4.3):
         emit[+x] <target> <salt> <input>...   content(target) = salt ++ concat(content(input)); "-" = empty salt
         failif <input>                         exit 1 iff content(input) contains "FAIL"
         fail                                   exit 1
         noop                                   exit 0                                                  */
    fn run_line(&mut self, line : &str) -> CommandLineOutput
    {
        let tokens : Vec<&str> = line.split(' ').filter(|t| t.len() > 0).collect();
        if tokens.len() == 0
        {
            return cmd_ok();
        }
        match tokens[0]
        {
            "noop" => cmd_ok(),
            "fail" =>
            {
                rt::sim_yield();
                cmd_err(1, "fail".to_string())
            },
            "failif" =>
            {
                if tokens.len() != 2
                {
                    return cmd_err(2, "failif: usage".to_string());
                }
                rt::sim_yield();
                let data = self.w.lock().disk.read(tokens[1]);
                rt::sim_record(Ev::Fs{ op : FsOp::Read, origin : Origin::Command, path : tokens[1].to_string(), path2 : None, ok : data.is_some(), mutation : None, data : None, replaced : None });
                match data
                {
                    None => cmd_err(1, format!("failif: {}: no such file", tokens[1])),
                    Some(d) =>
                    {
                        if d.windows(4).any(|w| w == b"FAIL") { cmd_err(1, "failif: FAIL".to_string()) } else { cmd_ok() }
                    },
                }
            },
            "emit" | "emit+x" =>
            {
                if tokens.len() < 3
                {
                    return cmd_err(2, "emit: usage".to_string());
                }
                let exec = tokens[0] == "emit+x";
                let target = tokens[1];
                let mut content : Vec<u8> = if tokens[2] == "-" { vec![] } else { tokens[2].as_bytes().to_vec() };

                // read every input first: a failing emit writes nothing
                rt::sim_yield();
                for input in tokens[3..].iter()
                {
                    let data = self.w.lock().disk.read(input);
                    rt::sim_record(Ev::Fs{ op : FsOp::Read, origin : Origin::Command, path : input.to_string(), path2 : None, ok : data.is_some(), mutation : None, data : None, replaced : None });
                    match data
                    {
                        Some(d) => content.extend_from_slice(&d),
                        None => return cmd_err(1, format!("emit: {}: no such file", input)),
                    }
                }

                // create (truncate) ...
                rt::sim_yield();
                let mode = self.w.knobs().clock;
                let (r, index, replaced) =
                {
                    let mut g = self.w.lock();
                    let index = g.mutation(FsOp::CreateFile, Origin::Command, target, None);
                    let replaced = g.disk.read(target);
                    let t = g.stamp(mode);
                    let r = g.disk.create_file(target, t);
                    if let Ok(i) = r
                    {
                        g.disk.inodes.get_mut(&i).unwrap().exec = exec;
                    }
                    (r, index, replaced)
                };
                rt::sim_record(Ev::Fs{ op : FsOp::CreateFile, origin : Origin::Command, path : target.to_string(), path2 : None, ok : r.is_ok(), mutation : Some(index), data : None, replaced : replaced });
                let inode = match r
                {
                    Ok(i) => i,
                    Err(e) => return cmd_err(1, format!("emit: cannot create {}: {}", target, e)),
                };

                // ... then write
                if content.len() > 0
                {
                    rt::sim_yield();
                    let index =
                    {
                        let mut g = self.w.lock();
                        let index = g.mutation(FsOp::Write, Origin::Command, target, Some((inode, 0, Arc::new(content.clone()))));
                        let t = g.stamp(mode);
                        g.disk.write_at(inode, 0, &content, t);
                        index
                    };
                    rt::sim_record(Ev::Fs{ op : FsOp::Write, origin : Origin::Command, path : target.to_string(), path2 : None, ok : true, mutation : Some(index), data : None, replaced : None });
                }
                cmd_ok()
            },
            other => cmd_err(127, format!("{}: command not found", other)),
        }
    }
}

// ---------------------------------------------------------------- RecPrinter

#[derive(Clone, Debug, PartialEq)]
pub enum Printed
{
    Banner(String, String),   // (trimmed banner text, path)
    Out(String),
    Err(String),
}

pub struct RecPrinter
{
    pub lines : Vec<Printed>,
}

impl RecPrinter
{
    pub fn new() -> RecPrinter { RecPrinter{ lines : vec![] } }
}

impl Printer for RecPrinter
{
    fn print_single_banner_line(&mut self, banner_text : &str, _banner_color : Color, path : &str)
    {
        self.lines.push(Printed::Banner(banner_text.trim().to_string(), path.to_string()));
    }

    fn print(&mut self, text : &str)
    {
        self.lines.push(Printed::Out(text.to_string()));
    }

    fn error(&mut self, text : &str)
    {
        self.lines.push(Printed::Err(text.to_string()));
    }
}
