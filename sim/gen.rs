// gen.rs — seeded generation of rule graphs, file contents and operation histories (swarm style:
// sizes, operation mix, knobs, strategies all drawn per run).

use std::collections::{BTreeMap, BTreeSet};

use super::model::{self, Outcome};
use super::rt::{SchedSpec, Strategy};
use super::scen::{Case, Op, SRule, Line, DirPart};
use super::simsys::{Knobs, ClockMode};
use super::util::Rng;

#[derive(Clone, Debug)]
pub struct GenCfg
{
    pub max_rules : usize,
    pub max_ops : usize,
    pub min_ops : usize,
    pub failing : bool,         // failif / fail / not-generated rules, FAIL contents
    pub missing_leaves : bool,  // delete leaf sources
    pub hidden : bool,          // undeclared inputs
    pub exec : bool,            // emit+x / chmod
    pub twins : bool,           // force equal-content rules
    pub invalid_graphs : bool,
    pub shared_pool : bool,     // contents from a pool shared by all paths
    pub empty_salts : bool,
    pub clock : Option<ClockMode>,
    pub policy_sched : Option<Strategy>,  // fixed scheduling policy for every invocation
    pub user_damage : bool,     // tamper / delete target / delete cache / delete ruler dir
    pub rule_edits : bool,
    pub cleans : u64,           // weight of clean operations
    pub goals : bool,
    pub end_with_build : bool,
    pub copy_rules : bool,      // mostly single-source, single-target rules with empty salt ("cp")
    pub edits_only : bool,      // user operations are source edits/reverts only
    pub fail_rate : u64,        // per-rule chance (out of 24) of a failing construct when `failing`
    pub soak : bool,            // long soak: one small graph built from dozens of distinct source states, then reverts
    pub moves : bool,           // user `mv` onto a target (keeps the old mtime); only sound to demand
                                // anything about it when distinct writes carry distinct mtimes
    pub prune_dirs : bool,      // the user removes emptied output directories (verdicts are then outside the reference model)
    pub dir_at_target : bool,   // the user makes a directory at a target's path (verdicts are then outside the reference model)
    pub dir_leaves : bool,      // a source that is a directory (listing + files below it)
    pub crowds : bool,          // one case in ~250: 40-220 rules (limits, batching, quadratic paths)
    pub outside_leaves : bool,  // leaves spelled "../<target>" or "/<target>": different files whose
                                // names contain a target's name (never on the real file system)
}

impl GenCfg
{
    pub fn base(thorough : bool) -> GenCfg
    {
        GenCfg
        {
            max_rules : if thorough { 14 } else { 8 },
            max_ops : if thorough { 12 } else { 8 },
            min_ops : 1,
            failing : true,
            missing_leaves : true,
            hidden : false,
            exec : true,
            twins : false,
            invalid_graphs : false,
            shared_pool : false,
            empty_salts : false,
            clock : Some(ClockMode::Distinct),
            policy_sched : None,
            user_damage : true,
            rule_edits : true,
            cleans : 10,
            goals : true,
            end_with_build : true,
            copy_rules : false,
            edits_only : false,
            fail_rate : 4,
            soak : false,
            moves : true,
            prune_dirs : false,
            dir_at_target : false,
            dir_leaves : true,
            crowds : true,
            outside_leaves : true,
        }
    }
}

thread_local!
{
    /* which rarely-taken dimensions the cases generated on this thread used (drained into the
       statistics at the end of each run; never read by the generator itself) */
    static CASE_DIMENSIONS : std::cell::RefCell<Vec<&'static str>> = std::cell::RefCell::new(vec![]);
}

pub fn take_case_dimensions() -> Vec<&'static str>
{
    CASE_DIMENSIONS.with(|d| std::mem::take(&mut *d.borrow_mut()))
}

pub struct Gen
{
    pub rng : Rng,
    pub cfg : GenCfg,
    next_name : usize,
    leaves : Vec<String>,
    hidden_files : Vec<String>,
    /* current content of every non-target file the generator knows about */
    files : BTreeMap<String, Vec<u8>>,
    rules : Vec<SRule>,
    seen_contents : Vec<Vec<u8>>,
    shared_pool : bool,
    with_dir : bool,
    big_files : bool,
    odd_names : bool,
    long_names : bool,
    mib_files : bool,
    crowd : bool,
    extra_dirs : Vec<String>,
    dir_leaves : Vec<(String, Vec<String>)>,
}

const LETTERS : &[&str] = &["a", "b", "c", "d", "e", "k", "m", "z"];

impl Gen
{
    pub fn new(seed : u64, cfg : GenCfg) -> Gen
    {
        let mut rng = Rng::new(seed);
        let shared_pool = cfg.shared_pool || rng.chance(1, 3);
        let with_dir = rng.chance(1, 4) || (cfg.prune_dirs && rng.chance(2, 3));
        let big_files = rng.chance(1, 5);
        let odd_names = rng.chance(1, 8);
        let long_names = rng.chance(1, 12);
        let crowd = cfg.crowds && !cfg.soak && rng.chance(1, 250);
        model::set_dir_leaves(vec![]);
        // files around 1 MiB: only in small graphs (a command's output is the concatenation of its inputs)
        let big_files = big_files && !crowd;    // content grows along dependency paths: keep crowds small-grained
        let mib_files = big_files && rng.chance(1, 10);
        let mut cfg = cfg;
        if mib_files { cfg.max_rules = std::cmp::min(cfg.max_rules, 4); }
        Gen
        {
            mib_files : mib_files,
            long_names : long_names,
            crowd : crowd,
            extra_dirs : vec![],
            dir_leaves : vec![],
            rng : rng,
            cfg : cfg,
            next_name : 0,
            leaves : vec![],
            hidden_files : vec![],
            files : BTreeMap::new(),
            rules : vec![],
            seen_contents : vec![],
            shared_pool : shared_pool,
            with_dir : with_dir,
            big_files : big_files,
            odd_names : odd_names,
        }
    }

    fn fresh_name(&mut self, kind : &str) -> String
    {
        self.next_name += 1;
        let letter = if self.odd_names && self.rng.chance(1, 3) { *self.rng.pick(&["\u{e9}", "\u{f1}", "\u{3b1}", "\u{6587}"]) } else { *self.rng.pick(LETTERS) };
        let mut base = format!("{}{}{}", letter, kind, self.next_name);
        if self.long_names && self.rng.chance(1, 2)
        {
            // names beyond any terminal width / small fixed buffer, sharing a long suffix
            let n = *self.rng.pick(&[50usize, 66, 67, 68, 69, 80, 127, 128, 129, 200]);
            base = format!("{}_{}", base, "generated-protocol-messages-inventory-".repeat(6)[..n].to_string());
        }
        if self.with_dir && kind == "t"
        {
            match self.rng.below(7)
            {
                6 => format!("out/deep/er/{}", base),
                0 | 1 | 3 => format!("out/{}", base),
                // a sibling of the directory whose name sorts between "out" and "out/" as a plain
                // string but after it as a path component
                2 => format!("out.{}", base),
                _ => base,
            }
        }
        else { base }
    }

    fn content_for(&mut self, path : &str) -> Vec<u8>
    {
        if self.rng.chance(1, 16)
        {
            return vec![];      // an empty file: its hash is the hash of nothing, as in FileState::empty()
        }
        let k = self.rng.below(3);
        if self.big_files && self.rng.chance(1, 6)
        {
            // sizes around the 256-byte read buffer of the hashing loop, and beyond
            let mut len = *self.rng.pick(&[255usize, 256, 257, 511, 512, 513, 700, 700, 4095, 4096, 4097, 8193, 65536, 65537, 100_000]);
            if self.mib_files && self.rng.chance(1, 3) { len = *self.rng.pick(&[(1usize << 20) - 1, 1 << 20, (1 << 20) + 1, 1_300_001]); }
            // the versions of one path share a long prefix and differ only at the very end (an edit
            // near the end of a long file), or — one time in four — from the first byte on
            let early = self.rng.chance(1, 4);
            let unit = if early { format!("{}#{}|", path, k) } else { format!("{}|", path) };
            let mut v = Vec::with_capacity(len);
            while v.len() < len { v.extend_from_slice(unit.as_bytes()); }
            v.truncate(len);
            if !early
            {
                let tail = format!("#{}", k);
                let n = v.len();
                v[n - tail.len()..].copy_from_slice(tail.as_bytes());
            }
            return v;
        }
        if self.shared_pool
        {
            vec![b'A' + k as u8]
        }
        else
        {
            format!("{}#{}", path, k).into_bytes()
        }
    }

    fn salt(&mut self) -> String
    {
        if self.cfg.empty_salts && self.rng.chance(2, 3)
        {
            return "".to_string();
        }
        match self.rng.below(4)
        {
            0 => "".to_string(),
            1 => "x".to_string(),
            2 => "y".to_string(),
            _ => "w".to_string(),
        }
    }

    fn all_targets(&self) -> Vec<String>
    {
        self.rules.iter().flat_map(|r| r.targets.clone()).collect()
    }

    /* sources available to a rule placed at position `pos`: leaves and targets of earlier rules */
    fn available_sources(&self, pos : usize) -> Vec<String>
    {
        let mut v = self.leaves.clone();
        for r in self.rules[..pos].iter()
        {
            v.extend(r.targets.iter().cloned());
        }
        v
    }

    fn new_leaf(&mut self) -> String
    {
        let name = self.fresh_name("s");
        let c = self.content_for(&name);
        self.files.insert(name.clone(), c);
        self.leaves.push(name.clone());
        name
    }

    fn make_rule(&mut self, pos : usize) -> SRule
    {
        let copyish = self.cfg.copy_rules && self.rng.chance(4, 5);
        let wide = !copyish && self.rng.chance(1, 40);
        let very_wide = wide && !self.big_files && self.rng.chance(1, 10);
        let n_targets = if copyish { 1 } else if very_wide { self.rng.range(20, 70) } else if wide { self.rng.range(4, 9) } else { match self.rng.below(10) { 0..=5 => 1, 6..=8 => 2, _ => 3 } };
        let avail = self.available_sources(pos);
        let n_sources = if copyish { 1 } else if self.crowd { std::cmp::min(self.leaves.len(), self.rng.range(1, 4)) } else { std::cmp::min(avail.len(), if wide { self.rng.range(4, 10) } else { self.rng.range(1, 4) }) };
        let mut sources : Vec<String> = vec![];
        let earlier_targets : Vec<String> = self.rules[..pos].iter().flat_map(|r| r.targets.clone()).collect();
        while sources.len() < n_sources
        {
            // (in a crowd only leaves here; build_graph adds at most one produced source per rule, so
            //  that sizes grow linearly along a path)
            let s = if self.crowd { self.rng.pick(&self.leaves.clone()).clone() }
                    else if earlier_targets.len() > 0 && self.rng.chance(1, 2) { self.rng.pick(&earlier_targets).clone() }
                    else { self.rng.pick(&avail).clone() };
            if !sources.contains(&s)
            {
                sources.push(s);
            }
        }
        let mut targets = vec![];
        let mut lines = vec![];
        for _ in 0..n_targets
        {
            let t = self.fresh_name("t");
            // each target reads its own non-empty subset of the sources
            let mut inputs : Vec<String> = sources.iter().filter(|_| self.rng.chance(2, 3)).cloned().collect();
            if inputs.len() == 0
            {
                inputs.push(self.rng.pick(&sources).clone());
            }
            let exec = self.cfg.exec && self.rng.chance(1, 5);
            let salt = if copyish { "".to_string() } else { self.salt() };
            lines.push(Line::Emit{ target : t.clone(), salt : salt, inputs : inputs, exec : exec });
            targets.push(t);
        }
        // sometimes two targets of one rule are made the same way (stamp files, copies): siblings
        // with byte-identical content share one cache entry
        if lines.len() >= 2 && self.rng.chance(1, 6)
        {
            if let Line::Emit{ salt, inputs, .. } = lines[0].clone()
            {
                if let Line::Emit{ salt : s2, inputs : i2, .. } = &mut lines[1]
                {
                    *s2 = salt;
                    *i2 = inputs;
                }
            }
        }
        if self.cfg.failing && self.rng.below(24) < self.cfg.fail_rate
        {
            match self.rng.below(4)
            {
                0 => lines.insert(0, Line::Fail),
                1 | 2 => { let s = self.rng.pick(&sources).clone(); lines.insert(0, Line::FailIf{ input : s }); },
                _ => { if lines.len() > 1 || self.rng.chance(1, 2) { let k = self.rng.below(lines.len() as u64) as usize; lines.remove(k); } },
            }
        }
        self.rng.shuffle(&mut targets);
        SRule{ targets, sources, lines }
    }

    fn build_graph(&mut self)
    {
        let n_leaves = if self.crowd { *self.rng.pick(&[3usize, 8, 12, 64, 127, 128, 129, 130, 200, 300]) } else { self.rng.range(1, 4) };
        for _ in 0..n_leaves
        {
            self.new_leaf();
        }
        let n_rules = if self.crowd { *self.rng.pick(&[40usize, 63, 64, 65, 66, 100, 127, 128, 129, 130, 220]) } else { self.rng.range(1, self.cfg.max_rules) };
        let shape = if self.crowd { *self.rng.pick(&[0u64, 1, 2, 9, 9, 9]) } else { self.rng.below(10) };
        for i in 0..n_rules
        {
            let mut r = self.make_rule(i);
            match shape
            {
                // chain: every rule reads the previous rule's first target
                0 if i > 0 =>
                {
                    let prev = self.rules[i - 1].targets[0].clone();
                    force_source(&mut r, &prev);
                },
                // wide fan-in: the last rule reads one target of every earlier rule
                1 if i == n_rules - 1 && i > 0 =>
                {
                    let prevs : Vec<String> = self.rules.iter().take(8).map(|q| q.targets[0].clone()).collect();
                    for p in prevs { force_source(&mut r, &p); }
                },
                // wide fan-out: everybody reads the first rule's first target
                2 if i > 0 =>
                {
                    let first = self.rules[0].targets[0].clone();
                    force_source(&mut r, &first);
                },
                // dependent of the second (sorted) target of a multi-target rule
                3 if i > 0 =>
                {
                    if let Some(q) = self.rules[..i].iter().find(|q| q.targets.len() >= 2)
                    {
                        let t = q.sorted_targets()[1].clone();
                        force_source(&mut r, &t);
                    }
                },
                9 if self.crowd && i > 0 && self.rng.chance(2, 3) =>
                {
                    let q = self.rng.below(i as u64) as usize;
                    let t = self.rules[q].targets[0].clone();
                    force_source(&mut r, &t);
                },
                _ => {},
            }
            self.rules.push(r);
        }
        // diamond: a, b <- s ; c <- a b
        if shape == 4 && self.rules.len() >= 3
        {
            let a = self.rules[0].targets[0].clone();
            let b = self.rules[1].targets[0].clone();
            let last = self.rules.len() - 1;
            let mut r = self.rules[last].clone();
            force_source(&mut r, &a);
            force_source(&mut r, &b);
            self.rules[last] = r;
            let s0 = self.rules[0].sources[0].clone();
            if self.leaves.contains(&s0)
            {
                let mut r1 = self.rules[1].clone();
                force_source(&mut r1, &s0);
                self.rules[1] = r1;
            }
        }
        if self.cfg.twins || self.rng.chance(1, 6)
        {
            self.add_twins();
        }
        if self.cfg.dir_leaves && !self.crowd && !self.cfg.prune_dirs && self.rng.chance(1, 10)
        {
            self.add_dir_leaf();
        }
        if self.cfg.outside_leaves && self.rules.len() >= 2 && self.rng.chance(1, 12)
        {
            self.add_outside_leaf();
        }
        if self.cfg.hidden
        {
            self.add_hidden();
        }
    }

    /* A source that is a directory: the rule declares the directory, its command reads some of the
       files below it, in some order. */
    fn add_dir_leaf(&mut self)
    {
        self.next_name += 1;
        let dir = format!("src{}.d", self.next_name);
        self.extra_dirs.push(dir.clone());
        let nested = self.rng.chance(1, 3);
        if nested { self.extra_dirs.push(format!("{}/sub", dir)); }
        let n = self.rng.range(2, 3);
        let mut members = vec![];
        for i in 0..n
        {
            let m = if nested && i == n - 1 { format!("{}/sub/m{}", dir, i) } else { format!("{}/m{}", dir, i) };
            // a few bytes each, so that bytes can move from one member to its neighbour
            let c = format!("{}{}", ["ab", "abc", "xyz", "q"][self.rng.below(4) as usize], i).into_bytes();
            self.files.insert(m.clone(), c);
            members.push(m);
        }
        let k = self.rng.below(self.rules.len() as u64) as usize;
        let mut r = self.rules[k].clone();
        r.sources.push(dir.clone());
        // which members the command reads, and in which order, is the command's business
        let mut reads : Vec<String> = members.iter().filter(|_| self.rng.chance(2, 3)).cloned().collect();
        if reads.len() == 0 { reads.push(members[0].clone()); }
        self.rng.shuffle(&mut reads);
        for l in r.lines.iter_mut()
        {
            if let Line::Emit{ inputs, .. } = l { inputs.extend(reads.iter().cloned()); break; }
        }
        self.rules[k] = r;
        self.dir_leaves.push((dir, members));
        model::set_dir_leaves(self.dir_leaves.clone());
    }

    fn is_dir_leaf(&self, s : &str) -> bool { self.dir_leaves.iter().any(|(d, _)| d == s) }

    /* A leaf whose spelling contains the whole name of another rule's target behind `..` or `/`:
       "../out/t5" and "/out/t5" are not "out/t5".  Anything that identifies files by a cleaned-up
       form of the path instead of the path confuses them. */
    fn add_outside_leaf(&mut self)
    {
        let ri = self.rng.below(self.rules.len() as u64) as usize;
        let target = self.rng.pick(&self.rules[ri].targets).clone();
        let mut qi = self.rng.below(self.rules.len() as u64) as usize;
        if qi == ri { qi = (qi + 1) % self.rules.len(); }
        let name = if self.rng.chance(1, 2) { format!("../{}", target) } else { format!("/{}", target) };
        // every ancestor directory of the new name
        let mut acc = String::new();
        let parts : Vec<&str> = name.split('/').collect();
        for (i, part) in parts[..parts.len() - 1].iter().enumerate()
        {
            if i > 0 { acc.push('/'); }
            acc.push_str(part);
            if acc != "" && !self.extra_dirs.contains(&acc) { self.extra_dirs.push(acc.clone()); }
        }
        let c = self.content_for(&name);
        self.files.insert(name.clone(), c);
        self.leaves.push(name.clone());
        let mut q = self.rules[qi].clone();
        force_source(&mut q, &name);
        self.rules[qi] = q;
    }

    /* two single-target rules with the same source, salt and inputs: byte-identical outputs */
    fn add_twins(&mut self)
    {
        let pos = self.rules.len();
        let avail = self.available_sources(pos);
        let s = self.rng.pick(&avail).clone();
        let salt = self.salt();
        let n = 2 + self.rng.below(2) as usize;
        for _ in 0..n
        {
            let t = self.fresh_name("t");
            let exec = self.cfg.exec && self.rng.chance(1, 4);
            self.rules.push(SRule
            {
                targets : vec![t.clone()],
                sources : vec![s.clone()],
                lines : vec![Line::Emit{ target : t, salt : salt.clone(), inputs : vec![s.clone()], exec : exec }],
            });
        }
        // sometimes a consumer of one twin
        if self.rng.chance(1, 2)
        {
            let src = self.rules[pos].targets[0].clone();
            let t = self.fresh_name("t");
            let salt = self.salt();
            self.rules.push(SRule
            {
                targets : vec![t.clone()],
                sources : vec![src.clone()],
                lines : vec![Line::Emit{ target : t, salt : salt, inputs : vec![src], exec : false }],
            });
        }
    }

    /* give 1-2 rules an undeclared input */
    fn add_hidden(&mut self)
    {
        let n = 1 + self.rng.below(2) as usize;
        for _ in 0..n
        {
            let h = self.fresh_name("h");
            let c = self.content_for(&h);
            self.files.insert(h.clone(), c);
            self.hidden_files.push(h.clone());
            let k = self.rng.below(self.rules.len() as u64) as usize;
            let mut r = self.rules[k].clone();
            let mut any = false;
            let force = self.rng.below(r.lines.len().max(1) as u64) as usize;
            for (li, l) in r.lines.iter_mut().enumerate()
            {
                if let Line::Emit{ inputs, .. } = l
                {
                    if li == force || self.rng.chance(1, 2)
                    {
                        inputs.push(h.clone());
                        any = true;
                    }
                }
            }
            if any
            {
                self.rules[k] = r;
            }
        }
    }

    fn sched(&mut self) -> SchedSpec
    {
        match &self.cfg.policy_sched
        {
            Some(s) => SchedSpec{ strategy : s.clone(), seed : self.rng.next() },
            None => SchedSpec::random(&mut self.rng),
        }
    }

    fn goal(&mut self) -> Option<String>
    {
        let ts = self.all_targets();
        if ts.len() == 0 { None } else { Some(self.rng.pick(&ts).clone()) }
    }

    /* contents the reference model expects right now (for tampering with plausible bytes) */
    fn note_expected_contents(&mut self)
    {
        let files = self.files.clone();
        let reader = move |p : &str| files.get(p).cloned();
        if let Ok(m) = model::evaluate(&self.rules, None, &reader)
        {
            for o in m.outcomes.values()
            {
                if let Outcome::Built(ts) = o
                {
                    for (_, b, _) in ts.iter()
                    {
                        if !self.seen_contents.contains(b) && self.seen_contents.len() < 64
                        {
                            self.seen_contents.push(b.clone());
                        }
                    }
                }
            }
        }
    }

    fn edit_rules(&mut self) -> Vec<SRule>
    {
        let mut rules = self.rules.clone();
        let k = self.rng.below(rules.len() as u64) as usize;
        match self.rng.below(11)
        {
            7 =>
            {
                // delete a rule (its targets stay behind as undeclared files — or, when another rule
                // reads them, become plain source files that ruler no longer makes)
                let used = rules.iter().any(|r| r.sources.iter().any(|s| rules[k].targets.contains(s)));
                if rules.len() > 1 && (!used || self.rng.chance(1, 2))
                {
                    let gone = rules.remove(k);
                    if used
                    {
                        for t in gone.targets.iter()
                        {
                            if !self.leaves.contains(t) { self.leaves.push(t.clone()); }
                        }
                    }
                }
            },
            10 =>
            {
                // edit the command so that it no longer generates one declared target
                let emits : Vec<usize> = rules[k].lines.iter().enumerate().filter(|(_, l)| match l { Line::Emit{..} => true, _ => false }).map(|(i, _)| i).collect();
                if emits.len() > 0 && self.cfg.failing
                {
                    let li = *self.rng.pick(&emits);
                    rules[k].lines.remove(li);
                }
            },
            8 =>
            {
                // rename a target (new identity for its rule and for every rule that reads it)
                let ti = self.rng.below(rules[k].targets.len() as u64) as usize;
                let old = rules[k].targets[ti].clone();
                let new = self.fresh_name("t");
                for r in rules.iter_mut()
                {
                    for t in r.targets.iter_mut() { if *t == old { *t = new.clone(); } }
                    for t in r.sources.iter_mut() { if *t == old { *t = new.clone(); } }
                    for l in r.lines.iter_mut()
                    {
                        match l
                        {
                            Line::Emit{ target, inputs, .. } =>
                            {
                                if *target == old { *target = new.clone(); }
                                for i in inputs.iter_mut() { if *i == old { *i = new.clone(); } }
                            },
                            Line::FailIf{ input } => { if *input == old { *input = new.clone(); } },
                            Line::Fail => {},
                        }
                    }
                }
            },
            9 =>
            {
                // permute the target and source lines: same rule, must not cost a rebuild
                self.rng.shuffle(&mut rules[k].targets);
                self.rng.shuffle(&mut rules[k].sources);
            },
            0 | 1 =>
            {
                // change a salt (= change the command)
                let n = rules[k].lines.len();
                if n > 0
                {
                    let li = self.rng.below(n as u64) as usize;
                    let new_salt = self.salt();
                    if let Line::Emit{ salt, .. } = &mut rules[k].lines[li]
                    {
                        *salt = if *salt == new_salt { format!("{}q", new_salt) } else { new_salt };
                    }
                }
            },
            2 =>
            {
                // add a source
                let avail = self.available_sources(k);
                let s = self.rng.pick(&avail).clone();
                if !rules[k].sources.contains(&s)
                {
                    rules[k].sources.push(s.clone());
                    if self.rng.chance(2, 3)
                    {
                        for l in rules[k].lines.iter_mut()
                        {
                            if let Line::Emit{ inputs, .. } = l { inputs.push(s.clone()); break; }
                        }
                    }
                }
            },
            3 =>
            {
                // remove a source
                if rules[k].sources.len() > 1
                {
                    let si = self.rng.below(rules[k].sources.len() as u64) as usize;
                    let s = rules[k].sources.remove(si);
                    let below = format!("{}/", s);
                    let is_dir = self.is_dir_leaf(&s);
                    for l in rules[k].lines.iter_mut()
                    {
                        match l
                        {
                            Line::Emit{ inputs, .. } => inputs.retain(|i| *i != s && !(is_dir && i.starts_with(&below))),
                            _ => {},
                        }
                    }
                    rules[k].lines.retain(|l| match l { Line::FailIf{ input } => *input != s, _ => true });
                }
            },
            4 =>
            {
                // add a target
                let t = self.fresh_name("t");
                let salt = self.salt();
                let plain : Vec<String> = rules[k].sources.iter().filter(|s| !self.is_dir_leaf(s)).cloned().collect();
                let input = if plain.len() > 0 { self.rng.pick(&plain).clone() } else { self.rng.pick(&rules[k].sources).clone() };
                rules[k].lines.push(Line::Emit{ target : t.clone(), salt : salt, inputs : vec![input], exec : false });
                rules[k].targets.push(t);
            },
            5 =>
            {
                // remove a target nobody depends on
                if rules[k].targets.len() > 1
                {
                    let ti = self.rng.below(rules[k].targets.len() as u64) as usize;
                    let t = rules[k].targets[ti].clone();
                    let used = rules.iter().any(|r| r.sources.contains(&t));
                    if !used
                    {
                        rules[k].targets.remove(ti);
                        rules[k].lines.retain(|l| match l { Line::Emit{ target, .. } => *target != t, _ => true });
                    }
                }
            },
            _ =>
            {
                // append a new rule
                let pos = rules.len();
                self.rules = rules.clone();
                let r = self.make_rule(pos);
                rules.push(r);
            },
        }
        rules
    }

    fn push_build(&mut self, ops : &mut Vec<Op>)
    {
        self.note_expected_contents();
        let goal = if self.cfg.goals && self.rng.chance(1, 4) { self.goal() } else { None };
        let sched = self.sched();
        ops.push(Op::Build{ goal, sched });
    }

    fn user_op(&mut self, ops : &mut Vec<Op>)
    {
        let roll = if self.cfg.edits_only { 0 } else { self.rng.below(100) };
        let targets = self.all_targets();
        if roll < 30
        {
            // edit or revert a source (the pool has three values per path, so reverts are common)
            let mut cands = self.leaves.clone();
            cands.extend(self.hidden_files.iter().cloned());
            for (_, ms) in self.dir_leaves.iter() { cands.extend(ms.iter().cloned()); }
            if self.dir_leaves.len() > 0 && self.rng.chance(1, 4)
            {
                // the end of one member moves to the front of the next: same names, same bytes
                // overall, other files
                let (_, ms) = self.rng.pick(&self.dir_leaves.clone()).clone();
                let i = self.rng.below((ms.len() - 1) as u64) as usize;
                let (a, b) = (self.files.get(&ms[i]).cloned().unwrap_or(vec![]), self.files.get(&ms[i + 1]).cloned().unwrap_or(vec![]));
                if a.len() >= 2
                {
                    let cut = self.rng.range(1, a.len() - 1);
                    let (na, mut nb) = (a[..cut].to_vec(), a[cut..].to_vec());
                    nb.extend_from_slice(&b);
                    self.files.insert(ms[i].clone(), na.clone());
                    self.files.insert(ms[i + 1].clone(), nb.clone());
                    ops.push(Op::Write{ path : ms[i].clone(), content : na });
                    ops.push(Op::Write{ path : ms[i + 1].clone(), content : nb });
                    return;
                }
            }
            let p = self.rng.pick(&cands).clone();
            let mut c = self.content_for(&p);
            if self.cfg.failing && self.rng.chance(1, 12)
            {
                c = b"FAIL".to_vec();
            }
            self.files.insert(p.clone(), c.clone());
            ops.push(Op::Write{ path : p, content : c });
        }
        else if roll < 38 && self.cfg.rule_edits && self.with_dir
        {
            ops.push(Op::Restyle{ bundled : self.rng.chance(1, 2) });
        }
        else if roll < 40 && self.cfg.rule_edits
        {
            let rules = self.edit_rules();
            self.rules = rules.clone();
            ops.push(Op::SetRules{ rules });
        }
        else if roll < 48 && self.cfg.missing_leaves
        {
            let p = self.rng.pick(&self.leaves.clone()).clone();
            if self.files.contains_key(&p) && self.rng.chance(2, 3)
            {
                self.files.remove(&p);
                ops.push(Op::Delete{ path : p });
            }
            else
            {
                let c = self.content_for(&p);
                self.files.insert(p.clone(), c.clone());
                ops.push(Op::Write{ path : p, content : c });
            }
        }
        else if roll < 62 && self.cfg.user_damage && targets.len() > 0
        {
            // tamper with a target: fresh bytes, or bytes some target has / had
            let t = self.rng.pick(&targets).clone();
            let c = if self.seen_contents.len() > 0 && self.rng.chance(1, 2) { self.rng.pick(&self.seen_contents.clone()).clone() }
                    else { format!("tampered{}", self.rng.below(3)).into_bytes() };
            ops.push(Op::Write{ path : t, content : c });
        }
        else if roll < 66 && self.cfg.user_damage && targets.len() > 0
        {
            let t = self.rng.pick(&targets).clone();
            ops.push(Op::Delete{ path : t });
        }
        else if roll < 70 && self.cfg.user_damage && targets.len() > 0 && self.cfg.moves && self.cfg.clock == Some(ClockMode::Distinct)
        {
            // `mv`: another target, a source or the bystander lands on a target path with its old mtime
            let to = self.rng.pick(&targets).clone();
            let mut cands = targets.clone();
            cands.extend(self.leaves.iter().cloned());
            let from = self.rng.pick(&cands).clone();
            if from != to
            {
                if self.leaves.contains(&from) { self.files.remove(&from); }
                ops.push(Op::Move{ from : from, to : to });
            }
        }
        else if roll < 76 && self.cfg.user_damage
        {
            if self.seen_contents.len() > 0 && self.rng.chance(1, 2)
            {
                let c = self.rng.pick(&self.seen_contents.clone()).clone();
                ops.push(Op::DeleteCacheContent{ content : c });
            }
            else
            {
                ops.push(Op::DeleteCacheEntry{ pick : self.rng.below(8) as u32 });
            }
        }
        else if roll < 82 && self.cfg.user_damage
        {
            let part = match self.rng.below(6)
            {
                0 => DirPart::Whole,
                1 => DirPart::Cache,
                2 => DirPart::History,
                3 | 4 => DirPart::HistoryFile(self.rng.below(8) as u32),
                _ => DirPart::Table,
            };
            ops.push(Op::DeleteRulerDir{ part });
        }
        else if roll < 85 && self.cfg.exec && targets.len() > 0
        {
            let t = self.rng.pick(&targets).clone();
            ops.push(Op::Chmod{ path : t, exec : self.rng.chance(1, 2) });
        }
        else
        {
            let p = self.rng.pick(&self.leaves.clone()).clone();
            let c = self.content_for(&p);
            self.files.insert(p.clone(), c.clone());
            ops.push(Op::Write{ path : p, content : c });
        }
    }

    fn knobs(&mut self) -> Knobs
    {
        // with long files, byte-sized chunks would only burn scheduler steps
        // (long names make long contents too: every content carries its path)
        let read_chunk = if self.big_files { *self.rng.pick(&[0usize, 0, 255, 256, 257, 4096, 65536]) }
            else if self.long_names { *self.rng.pick(&[0usize, 0, 64, 255, 256, 257, 255]) }
            else { *self.rng.pick(&[0usize, 0, 1, 7, 255, 256, 257]) };
        let write_chunk = if self.big_files { *self.rng.pick(&[0usize, 0, 0, 4096]) } else { *self.rng.pick(&[0usize, 0, 0, 0, 7, 16, 64]) };
        let clock = match self.cfg.clock
        {
            Some(ClockMode::Distinct) => if self.rng.chance(1, 4) { ClockMode::Unordered } else { ClockMode::Distinct },
            Some(c) => c,
            None => if self.rng.chance(1, 2) { ClockMode::Distinct } else { ClockMode::Tick },
        };
        let read_chunk = if self.crowd && read_chunk < 255 { 0 } else { read_chunk };
        Knobs{ read_chunk, write_chunk, yield_on_read : !self.big_files && !self.crowd && self.rng.chance(1, 4), clock }
    }

    /* Long soak: depth of per-rule memory instead of breadth of scenarios.  A small graph is built
       from K pairwise distinct states of one source (every edit followed by a build), then the source
       is put back to recent and to old states. */
    fn soak_case(&mut self) -> Case
    {
        self.cfg.max_rules = 2;
        self.cfg.failing = false;
        self.build_graph();
        let rules = self.rules.clone();
        let mut files : Vec<(String, Vec<u8>)> = self.files.iter().map(|(p, c)| (p.clone(), c.clone())).collect();
        files.push(("README".to_string(), b"bystander".to_vec()));
        let leaf = self.leaves[0].clone();
        // (one soak in forty is an old workspace: beyond a thousand, beyond two thousand states)
        let k = if self.rng.chance(1, 40) { *self.rng.pick(&[1030usize, 2100]) } else { *self.rng.pick(&[20usize, 40, 70, 70, 100, 140]) };
        let mut ops = vec![];
        let state = |i : usize| format!("{}@{}", leaf, i).into_bytes();
        let serial = || SchedSpec{ strategy : Strategy::Serial, seed : 0 };
        ops.push(Op::Build{ goal : None, sched : serial() });
        for i in 0..k
        {
            ops.push(Op::Write{ path : leaf.clone(), content : state(i) });
            ops.push(Op::Build{ goal : None, sched : if i + 3 >= k { self.sched() } else { serial() } });
        }
        // back to the state before the last, to the last, to an old one, to the last again
        for i in [k - 2, k - 1, self.rng.range(0, k - 1), k - 1, k / 2].iter()
        {
            ops.push(Op::Write{ path : leaf.clone(), content : state(*i) });
            ops.push(Op::Build{ goal : None, sched : self.sched() });
        }
        let mut dirs = vec![];
        if self.with_dir { dirs = vec!["out".to_string(), "out/deep".to_string(), "out/deep/er".to_string()]; }
        let mut knobs = self.knobs();
        // (a history file of a thousand states, read byte by byte with a scheduling point at every
        //  read, would run into the step bound: the build would abort and nothing would be checked)
        if k > 200 { knobs.yield_on_read = false; }
        Case{ rules : rules, files : files, dirs : dirs, rule_files : 1, ops : ops, knobs : knobs }
    }

    pub fn case(&mut self) -> Case
    {
        let c = self.case_inner();
        let mut dims : Vec<&'static str> = vec![];
        if self.crowd { dims.push("crowd-of-40-to-220-rules"); }
        if self.crowd && self.leaves.len() > 128 { dims.push("more-than-128-leaves"); }
        if self.long_names { dims.push("long-names"); }
        if self.odd_names { dims.push("non-ascii-names"); }
        if self.big_files { dims.push("files-of-255-to-100000-bytes"); }
        if self.mib_files { dims.push("files-around-1-MiB"); }
        if self.dir_leaves.len() > 0 { dims.push("directory-source"); }
        if c.files.iter().any(|(p, _)| p.starts_with("../") || p.starts_with('/')) { dims.push("leaf-outside-workspace"); }
        if c.marker("ruler").is_some() { dims.push("ruler-directory-elsewhere"); }
        if c.marker("rules").is_some() { dims.push("rules-files-renamed"); }
        if c.marker("clock").is_some() { dims.push("other-time-origin"); }
        if c.ops.len() > 2000 { dims.push("soak-beyond-1000-states"); } else if c.ops.len() > 40 { dims.push("soak-or-long-history"); }
        if c.rules.iter().any(|r| r.targets.len() >= 20) { dims.push("rule-with-20-to-70-targets"); }
        CASE_DIMENSIONS.with(|d| d.borrow_mut().extend(dims));
        c
    }

    fn case_inner(&mut self) -> Case
    {
        if self.cfg.soak
        {
            return self.soak_case();
        }
        self.build_graph();
        let initial_rules = self.rules.clone();
        let initial_files : Vec<(String, Vec<u8>)> = self.files.iter().map(|(p, c)| (p.clone(), c.clone())).collect();
        let mut files = initial_files;
        // a bystander file ruler must never touch
        files.push(("README".to_string(), b"bystander".to_vec()));

        let mut n_ops = self.rng.range(self.cfg.min_ops, self.cfg.max_ops);
        if self.crowd { n_ops = std::cmp::min(n_ops, 5); }
        else if self.cfg.max_ops >= 6 && self.rng.chance(1, 60)
        {
            n_ops = self.rng.range(self.cfg.max_ops, 3 * self.cfg.max_ops);   // a long history now and then
        }
        let mut ops = vec![];
        while ops.len() < n_ops
        {
            let roll = self.rng.below(100);
            if ops.len() == 0 && self.rng.chance(4, 5)
            {
                self.push_build(&mut ops);
            }
            else if roll < 38
            {
                self.push_build(&mut ops);
            }
            else if roll < 38 + self.cfg.cleans
            {
                let goal = if self.cfg.goals && self.rng.chance(1, 3) { self.goal() } else { None };
                let sched = self.sched();
                ops.push(Op::Clean{ goal, sched });
                if self.cfg.prune_dirs && self.with_dir && self.rng.chance(1, 2) { ops.push(Op::PruneDirs); }
            }
            else if self.cfg.dir_at_target && roll >= 90 && roll < 96
            {
                let ts = self.all_targets();
                if ts.len() > 0 { let t = self.rng.pick(&ts).clone(); ops.push(Op::DirAt{ path : t }); }
            }
            else if self.cfg.prune_dirs && self.with_dir && roll >= 96
            {
                ops.push(if self.rng.chance(1, 2) { Op::PruneDirs } else { Op::MakeDirs });
            }
            else
            {
                self.user_op(&mut ops);
            }
        }
        if self.cfg.end_with_build
        {
            match ops.last()
            {
                Some(Op::Build{..}) => {},
                _ => self.push_build(&mut ops),
            }
        }

        let mut dirs = vec![];
        if self.with_dir
        {
            dirs.push("out".to_string());
            dirs.push("out/deep".to_string());
            dirs.push("out/deep/er".to_string());
        }
        dirs.extend(self.extra_dirs.iter().cloned());
        for (d, ms) in self.dir_leaves.iter() { dirs.push(format!("@dirleaf={}:{}", d, ms.join(","))); }
        // configuration: where ruler keeps its state and what the rules files are called
        if self.rng.chance(1, 4)
        {
            match self.rng.below(3)
            {
                0 => { dirs.push("state".to_string()); dirs.push("@ruler=state/rd".to_string()); },
                1 => dirs.push("@ruler=rd.cache".to_string()),
                _ => { dirs.push(".config".to_string()); dirs.push("@ruler=.config/ruler-dir".to_string()); },
            }
        }
        if self.rng.chance(1, 4)
        {
            // where on the time axis the workspace lives: near the epoch, today (microseconds), beyond 2^32 and 2^53
            dirs.push(format!("@clock={}", self.rng.pick(&[1u64, 1_700_000_000_000_000, (1 << 32) + 3, (1 << 53) + 1])));
        }
        if self.rng.chance(1, 5)
        {
            if self.rng.chance(1, 2) { dirs.push("rules".to_string()); dirs.push("@rules=rules/main.rules,rules/extra.rules".to_string()); }
            else { dirs.push("@rules=Rulesfile,Rulesfile.local".to_string()); }
        }
        Case
        {
            rules : initial_rules,
            files : files,
            dirs : dirs,
            rule_files : (if self.rng.chance(1, 4) { 2 } else { 1 }) + (if self.with_dir && self.rng.chance(1, 2) { 10 } else { 0 }),
            ops : ops,
            knobs : self.knobs(),
        }
    }

    pub fn current_rules(&self) -> Vec<SRule> { self.rules.clone() }
    pub fn current_files(&self) -> BTreeMap<String, Vec<u8>> { self.files.clone() }
    pub fn leaf_names(&self) -> Vec<String> { self.leaves.clone() }
    pub fn hidden_names(&self) -> Vec<String> { self.hidden_files.clone() }
}

fn force_source(r : &mut SRule, s : &str)
{
    if r.targets.iter().any(|t| t == s)
    {
        return;
    }
    if !r.sources.iter().any(|x| x == s)
    {
        r.sources.push(s.to_string());
    }
    for l in r.lines.iter_mut()
    {
        if let Line::Emit{ inputs, .. } = l
        {
            if !inputs.iter().any(|x| x == s)
            {
                inputs.push(s.to_string());
            }
            break;
        }
    }
}

/* Deliberately invalid graphs: build/clean must return an error value. */
pub fn make_invalid(rng : &mut Rng, rules : &mut Vec<SRule>) -> &'static str
{
    if rules.len() == 0
    {
        return "none";
    }
    match rng.below(3)
    {
        0 =>
        {
            // self-dependence
            let k = rng.below(rules.len() as u64) as usize;
            let t = rules[k].targets[0].clone();
            rules[k].sources.push(t);
            "self-dependence"
        },
        1 if rules.len() >= 2 =>
        {
            // duplicate target
            let t = rules[0].targets[0].clone();
            let last = rules.len() - 1;
            rules[last].targets.push(t);
            "duplicate-target"
        },
        _ =>
        {
            // cycle between first and last rule
            let last = rules.len() - 1;
            if last == 0
            {
                let t = rules[0].targets[0].clone();
                rules[0].sources.push(t);
                return "self-dependence";
            }
            let t_last = rules[last].targets[0].clone();
            let t_first = rules[0].targets[0].clone();
            rules[0].sources.push(t_last);
            if !rules[last].sources.contains(&t_first)
            {
                rules[last].sources.push(t_first);
            }
            "cycle"
        },
    }
}

pub fn all_leaves(rules : &[SRule]) -> BTreeSet<String>
{
    let targets : BTreeSet<String> = rules.iter().flat_map(|r| r.targets.clone()).collect();
    rules.iter().flat_map(|r| r.sources.clone()).filter(|s| !targets.contains(s)).collect()
}
