// rt.rs — simrt: drop-in `thread` / `mpsc` whose every interleaving is chosen by a seeded scheduler.
//
// Threads are real OS threads, but exactly one simulated thread holds the baton at any time; the
// baton changes hands only inside `yield_point` / `block` / `finish`, and who gets it is decided by
// the strategy (a pure function of the seed and of the sequence of runnable sets).  When the
// calling thread has no simulation context everything degrades to plain std behaviour, so the
// repository's own tests still pass with the guard on.

use std::any::Any;
use std::cell::RefCell;
use std::collections::{BTreeMap, VecDeque};
use std::panic::{self, AssertUnwindSafe};
use std::sync::{Arc, Condvar, Mutex, MutexGuard, Once};

use serde::{Serialize, Deserialize};

use super::util::Rng;

// ---------------------------------------------------------------- public data types

#[derive(Clone, Debug, PartialEq, Serialize, Deserialize)]
pub enum Strategy
{
    Serial,          // run the current thread until it blocks, then lowest id
    Reverse,         // run the current thread until it blocks, then highest id
    Uniform,         // random at every decision
    Sticky(u8),      // keep current with probability p %
    Pct(u8),         // random priorities, d priority-change points
    Starve(u8),      // p % of threads are victims: they run only when nobody else can
    Record(Vec<(u32, u16)>), // explicit: (decision index, thread id) where the choice differs from Serial
}

#[derive(Clone, Debug, PartialEq, Serialize, Deserialize)]
pub struct SchedSpec
{
    pub strategy : Strategy,
    pub seed : u64,
}

impl SchedSpec
{
    pub fn serial() -> SchedSpec { SchedSpec{ strategy : Strategy::Serial, seed : 0 } }
    pub fn reverse() -> SchedSpec { SchedSpec{ strategy : Strategy::Reverse, seed : 0 } }
    pub fn record(v : Vec<(u32, u16)>) -> SchedSpec { SchedSpec{ strategy : Strategy::Record(v), seed : 0 } }

    pub fn name(&self) -> &'static str
    {
        match self.strategy
        {
            Strategy::Serial => "serial",
            Strategy::Reverse => "reverse",
            Strategy::Uniform => "uniform",
            Strategy::Sticky(_) => "sticky",
            Strategy::Pct(_) => "pct",
            Strategy::Starve(_) => "starve",
            Strategy::Record(_) => "record",
        }
    }

    pub fn random(rng : &mut Rng) -> SchedSpec
    {
        let seed = rng.next();
        let strategy = match rng.below(12)
        {
            0 => Strategy::Serial,
            1 | 2 => Strategy::Reverse,
            3 | 4 | 5 => Strategy::Uniform,
            6 | 7 => Strategy::Sticky(50 + rng.below(45) as u8),
            8 | 9 => Strategy::Pct(1 + rng.below(3) as u8),
            _ => Strategy::Starve(15 + rng.below(35) as u8),
        };
        SchedSpec{ strategy, seed }
    }
}

#[derive(Clone, Copy, Debug, PartialEq, Eq)]
pub enum Origin
{
    Ruler,
    Command,
}

#[derive(Clone, Copy, Debug, PartialEq, Eq, PartialOrd, Ord)]
pub enum FsOp
{
    Open, CreateFile, CreateDir, IsDir, IsFile, ListDir, Rename, GetModified, IsExecutable, SetExecutable,
    Read, Write,
}

pub type FileMap = BTreeMap<String, (Arc<Vec<u8>>, bool)>;

#[derive(Clone, Debug)]
pub enum Ev
{
    Spawn(u16),
    Exit,
    Join(u16),
    Send{ chan : u32, ok : bool },
    Recv{ chan : u32, ok : bool },
    DropRx(u32),
    DropTx{ chan : u32, last : bool },
    /* `data`: for a rename, the content of the file that moved; `replaced`: the content that stood at the
       destination of a rename / at the path of a truncating create, if any */
    Fs{ op : FsOp, origin : Origin, path : String, path2 : Option<String>, ok : bool, mutation : Option<u32>,
        data : Option<Arc<Vec<u8>>>, replaced : Option<Arc<Vec<u8>>> },
    /* Command start: the script text as ruler handed it over, and the workspace (every regular
       file outside the ruler directory, content and exec bit) at that instant. */
    CmdStart{ script : Vec<String>, workspace : Arc<FileMap> },
    CmdEnd{ script : Vec<String>, codes : Vec<i32> },
}

#[derive(Clone, Debug)]
pub struct Event
{
    pub seq : u32,
    pub tid : u16,
    pub kind : Ev,
}

#[derive(Clone, Debug, PartialEq)]
pub enum Status
{
    Runnable,
    BlockedRecv(u32),
    BlockedJoin(u16),
    Finished,
}

#[derive(Clone, Debug, PartialEq)]
pub enum Abort
{
    Deadlock(Vec<(u16, String)>),
    StepBound(u32),
    RootDone,
}

pub struct SimAbort;

pub enum RootResult<T>
{
    Returned(T),
    Panicked(String),
    Aborted(Abort),
}

pub struct SimOutcome<T>
{
    pub result : RootResult<T>,
    pub events : Vec<Event>,
    pub record : Vec<(u32, u16)>,
    pub decisions : u32,
    pub steps : u32,
    pub threads : usize,
    /* panics of non-root threads: (tid, message) */
    pub thread_panics : Vec<(u16, String)>,
    /* threads that had not finished when the root call returned (process exit would kill them) */
    pub detached_at_exit : Vec<u16>,
    pub abort : Option<Abort>,
}

// ---------------------------------------------------------------- scheduler

struct TInfo
{
    status : Status,
    cv : Arc<Condvar>,
    prio : u64,
    victim : bool,
}

struct Inner
{
    threads : Vec<TInfo>,
    current : usize,
    spec : SchedSpec,
    rng : Rng,
    record_pos : usize,
    pct_points : Vec<u32>,
    pct_low : u64,
    decisions : u32,
    steps : u32,
    step_bound : u32,
    record : Vec<(u32, u16)>,
    abort : Option<Abort>,
    events : Vec<Event>,
    panics : Vec<(u16, String)>,
    live : usize,
    next_chan : u32,
    root_done : bool,
}

pub struct Ctx
{
    m : Mutex<Inner>,
    done_cv : Condvar,
}

thread_local!
{
    static CUR : RefCell<Option<(Arc<Ctx>, usize)>> = RefCell::new(None);
}

/* Progress indicators for the worker's watchdog: a simulation is running / scheduling points passed.
   Only thread/mpsc of build.rs are behind the scheduler seam.  If changed code makes rule threads
   wait for each other through something else (a std Mutex held across a System call, a Condvar, a
   barrier), the thread holding the baton can block in the OS for ever; that is outside what this
   simulator can decide, and the watchdog turns it into a prompt, explicit harness error instead of
   a silent hang. */
pub static SIM_ACTIVE : std::sync::atomic::AtomicBool = std::sync::atomic::AtomicBool::new(false);
pub static SIM_STEPS : std::sync::atomic::AtomicU64 = std::sync::atomic::AtomicU64::new(0);

fn cur() -> Option<(Arc<Ctx>, usize)>
{
    CUR.with(|c| c.borrow().clone())
}

pub fn in_sim() -> bool
{
    CUR.with(|c| c.borrow().is_some())
}

pub fn cur_tid() -> Option<usize>
{
    CUR.with(|c| c.borrow().as_ref().map(|(_, t)| *t))
}

fn abort_unwind() -> !
{
    panic::resume_unwind(Box::new(SimAbort))
}

static HOOK : Once = Once::new();

fn install_hook()
{
    HOOK.call_once(||
    {
        let default_hook = panic::take_hook();
        panic::set_hook(Box::new(move |info|
        {
            match cur()
            {
                Some((ctx, tid)) =>
                {
                    let msg =
                        if let Some(s) = info.payload().downcast_ref::<&str>() { s.to_string() }
                        else if let Some(s) = info.payload().downcast_ref::<String>() { s.clone() }
                        else { "<non-string panic payload>".to_string() };
                    let loc = match info.location()
                    {
                        Some(l) => format!("{}:{}", l.file(), l.line()),
                        None => "?".to_string(),
                    };
                    let mut g = ctx.lock();
                    g.panics.push((tid as u16, format!("{} @ {}", msg, loc)));
                },
                None => default_hook(info),
            }
        }));
    });
}

impl Inner
{
    fn runnable(&self) -> Vec<usize>
    {
        let mut v = vec![];
        for (i, t) in self.threads.iter().enumerate()
        {
            if t.status == Status::Runnable
            {
                v.push(i);
            }
        }
        v
    }

    fn wake_all(&self)
    {
        for t in self.threads.iter()
        {
            t.cv.notify_all();
        }
    }

    fn set_abort(&mut self, a : Abort)
    {
        if self.abort.is_none()
        {
            self.abort = Some(a);
        }
        self.wake_all();
    }

    /* Decide who runs next.  `me_ok`: the calling thread is itself runnable. */
    fn choose(&mut self, me : usize) -> Option<usize>
    {
        let runnable = self.runnable();
        if runnable.len() == 0
        {
            return None;
        }
        if runnable.len() == 1
        {
            return Some(runnable[0]);
        }

        let idx = self.decisions;
        self.decisions += 1;
        let me_ok = runnable.contains(&me);
        let default = if me_ok { me } else { runnable[0] };

        let chosen = match self.spec.strategy.clone()
        {
            Strategy::Serial => default,
            Strategy::Reverse => if me_ok { me } else { *runnable.last().unwrap() },
            Strategy::Uniform => *self.rng.pick(&runnable),
            Strategy::Sticky(p) =>
            {
                if me_ok && self.rng.below(100) < p as u64 { me } else { *self.rng.pick(&runnable) }
            },
            Strategy::Pct(_) =>
            {
                if me_ok && self.pct_points.contains(&idx)
                {
                    self.pct_low = self.pct_low.saturating_sub(1);
                    self.threads[me].prio = self.pct_low;
                }
                let mut best = runnable[0];
                for r in runnable.iter()
                {
                    if self.threads[*r].prio > self.threads[best].prio
                    {
                        best = *r;
                    }
                }
                best
            },
            Strategy::Starve(_) =>
            {
                let favoured : Vec<usize> = runnable.iter().cloned().filter(|r| !self.threads[*r].victim).collect();
                if favoured.len() > 0 { *self.rng.pick(&favoured) } else { *self.rng.pick(&runnable) }
            },
            Strategy::Record(list) =>
            {
                while self.record_pos < list.len() && list[self.record_pos].0 < idx
                {
                    self.record_pos += 1;
                }
                if self.record_pos < list.len() && list[self.record_pos].0 == idx
                    && runnable.contains(&(list[self.record_pos].1 as usize))
                {
                    list[self.record_pos].1 as usize
                }
                else
                {
                    default
                }
            },
        };

        if chosen != default
        {
            self.record.push((idx, chosen as u16));
        }
        Some(chosen)
    }

    fn describe_blocked(&self) -> Vec<(u16, String)>
    {
        self.threads.iter().enumerate()
            .filter(|(_, t)| t.status != Status::Finished)
            .map(|(i, t)| (i as u16, format!("{:?}", t.status))).collect()
    }

    fn register(&mut self) -> usize
    {
        let tid = self.threads.len();
        let prio = 1_000_000 + self.rng.below(1_000_000);
        let victim = match self.spec.strategy
        {
            Strategy::Starve(p) => tid != 0 && self.rng.below(100) < p as u64,
            _ => false,
        };
        self.threads.push(TInfo{ status : Status::Runnable, cv : Arc::new(Condvar::new()), prio, victim });
        tid
    }

    fn push_event(&mut self, tid : usize, kind : Ev)
    {
        let seq = self.events.len() as u32;
        self.events.push(Event{ seq, tid : tid as u16, kind });
    }
}

impl Ctx
{
    fn lock(&self) -> MutexGuard<'_, Inner>
    {
        match self.m.lock()
        {
            Ok(g) => g,
            Err(p) => p.into_inner(),
        }
    }

    /* Hand the baton to `next` (already chosen) and park until it comes back to `me`. */
    fn hand_off_and_wait<'a>(&'a self, mut g : MutexGuard<'a, Inner>, me : usize, next : usize)
    {
        if next != me
        {
            g.current = next;
            g.threads[next].cv.notify_all();
            let cv = g.threads[me].cv.clone();
            while g.current != me && g.abort.is_none()
            {
                g = match cv.wait(g) { Ok(g) => g, Err(p) => p.into_inner() };
            }
        }
        if g.abort.is_some()
        {
            drop(g);
            abort_unwind();
        }
    }

    fn yield_point(&self, me : usize)
    {
        let mut g = self.lock();
        if g.abort.is_some()
        {
            drop(g);
            abort_unwind();
        }
        g.steps += 1;
        SIM_STEPS.fetch_add(1, std::sync::atomic::Ordering::Relaxed);
        if g.steps > g.step_bound
        {
            let bound = g.step_bound;
            g.set_abort(Abort::StepBound(bound));
            drop(g);
            abort_unwind();
        }
        let next = g.choose(me).unwrap();
        self.hand_off_and_wait(g, me, next);
    }

    fn block(&self, me : usize, status : Status)
    {
        let mut g = self.lock();
        if g.abort.is_some()
        {
            drop(g);
            abort_unwind();
        }
        g.threads[me].status = status;
        match g.choose(me)
        {
            Some(next) => self.hand_off_and_wait(g, me, next),
            None =>
            {
                let d = g.describe_blocked();
                g.set_abort(Abort::Deadlock(d));
                drop(g);
                abort_unwind();
            },
        }
    }

    fn finish(&self, me : usize)
    {
        let mut g = self.lock();
        g.threads[me].status = Status::Finished;
        // threads torn down after an abort (or after the root returned) wake in whatever order
        // the OS likes: nothing they do then belongs in the deterministic event log
        if g.abort.is_none()
        {
            g.push_event(me, Ev::Exit);
        }
        for t in g.threads.iter_mut()
        {
            if t.status == Status::BlockedJoin(me as u16)
            {
                t.status = Status::Runnable;
            }
        }
        if g.abort.is_some()
        {
            return;
        }
        match g.choose(me)
        {
            Some(next) =>
            {
                g.current = next;
                g.threads[next].cv.notify_all();
            },
            None =>
            {
                if !g.root_done
                {
                    let d = g.describe_blocked();
                    g.set_abort(Abort::Deadlock(d));
                }
            },
        }
    }

    fn wake_recv(&self, chan : u32)
    {
        let mut g = self.lock();
        for t in g.threads.iter_mut()
        {
            if t.status == Status::BlockedRecv(chan)
            {
                t.status = Status::Runnable;
            }
        }
    }

    fn record(&self, me : usize, kind : Ev)
    {
        let mut g = self.lock();
        g.push_event(me, kind);
    }
}

/* Scheduling point: call before every visible operation. */
pub fn sim_yield()
{
    if std::thread::panicking()
    {
        return;
    }
    if let Some((ctx, me)) = cur()
    {
        ctx.yield_point(me);
    }
}

/* Append an event to the totally ordered log of the running simulation (no scheduling). */
pub fn sim_record(kind : Ev)
{
    if let Some((ctx, me)) = cur()
    {
        ctx.record(me, kind);
    }
}

/* Run `f` as the root (thread 0) of a simulated thread group. */
pub fn run_sim<T, F : FnOnce() -> T>(spec : SchedSpec, step_bound : u32, f : F) -> SimOutcome<T>
{
    install_hook();
    assert!(!in_sim(), "nested simulation");

    let mut rng = Rng::new(spec.seed ^ 0x5eed_5eed);
    let pct_points = match spec.strategy
    {
        Strategy::Pct(d) => (0..d).map(|_| rng.below(600) as u32).collect(),
        _ => vec![],
    };

    let ctx = Arc::new(Ctx
    {
        m : Mutex::new(Inner
        {
            threads : vec![],
            current : 0,
            spec : spec,
            rng : rng,
            record_pos : 0,
            pct_points : pct_points,
            pct_low : 1000,
            decisions : 0,
            steps : 0,
            step_bound : step_bound,
            record : vec![],
            abort : None,
            events : vec![],
            panics : vec![],
            live : 0,
            next_chan : 0,
            root_done : false,
        }),
        done_cv : Condvar::new(),
    });

    {
        let mut g = ctx.lock();
        let tid = g.register();
        assert!(tid == 0);
    }

    CUR.with(|c| *c.borrow_mut() = Some((ctx.clone(), 0)));
    SIM_ACTIVE.store(true, std::sync::atomic::Ordering::Relaxed);
    SIM_STEPS.fetch_add(1, std::sync::atomic::Ordering::Relaxed);
    let res = panic::catch_unwind(AssertUnwindSafe(f));
    CUR.with(|c| *c.borrow_mut() = None);

    // The root call is over: whatever is still alive is what process exit would have killed.
    let mut g = ctx.lock();
    g.root_done = true;
    let detached : Vec<u16> = g.threads.iter().enumerate().skip(1)
        .filter(|(_, t)| t.status != Status::Finished).map(|(i, _)| i as u16).collect();
    let abort_seen = g.abort.clone();
    g.set_abort(Abort::RootDone);
    while g.live > 0
    {
        g = match ctx.done_cv.wait(g) { Ok(g) => g, Err(p) => p.into_inner() };
    }

    let root_panics : Vec<String> = g.panics.iter().filter(|(t, _)| *t == 0).map(|(_, m)| m.clone()).collect();
    let thread_panics : Vec<(u16, String)> = g.panics.iter().filter(|(t, _)| *t != 0).cloned().collect();

    let result = match res
    {
        Ok(v) => RootResult::Returned(v),
        Err(payload) =>
        {
            if payload.downcast_ref::<SimAbort>().is_some()
            {
                RootResult::Aborted(abort_seen.clone().unwrap_or(Abort::RootDone))
            }
            else
            {
                RootResult::Panicked(root_panics.join(" | "))
            }
        },
    };

    SIM_ACTIVE.store(false, std::sync::atomic::Ordering::Relaxed);
    SimOutcome
    {
        result : result,
        events : std::mem::take(&mut g.events),
        record : std::mem::take(&mut g.record),
        decisions : g.decisions,
        steps : g.steps,
        threads : g.threads.len(),
        thread_panics : thread_panics,
        detached_at_exit : detached,
        abort : abort_seen,
    }
}

// ---------------------------------------------------------------- thread shim

pub mod thread
{
    use super::*;

    pub struct JoinHandle<T>
    {
        inner : std::thread::JoinHandle<T>,
        sim : Option<(Arc<Ctx>, usize)>,
    }

    impl<T> JoinHandle<T>
    {
        pub fn join(self) -> Result<T, Box<dyn Any + Send + 'static>>
        {
            if let Some((ctx, target)) = self.sim
            {
                if !std::thread::panicking()
                {
                    if let Some((_, me)) = cur()
                    {
                        ctx.yield_point(me);
                        loop
                        {
                            let finished =
                            {
                                let g = ctx.lock();
                                g.threads[target].status == Status::Finished
                            };
                            if finished
                            {
                                break;
                            }
                            ctx.block(me, Status::BlockedJoin(target as u16));
                        }
                        ctx.record(me, Ev::Join(target as u16));
                    }
                }
            }
            self.inner.join()
        }
    }

    pub fn spawn<F, T>(f : F) -> JoinHandle<T>
    where
        F : FnOnce() -> T + Send + 'static,
        T : Send + 'static,
    {
        match cur()
        {
            None => JoinHandle{ inner : std::thread::spawn(f), sim : None },
            Some((ctx, me)) =>
            {
                ctx.yield_point(me);
                let tid =
                {
                    let mut g = ctx.lock();
                    let tid = g.register();
                    g.live += 1;
                    g.push_event(me, Ev::Spawn(tid as u16));
                    tid
                };
                let ctx2 = ctx.clone();
                let inner = std::thread::spawn(move ||
                {
                    CUR.with(|c| *c.borrow_mut() = Some((ctx2.clone(), tid)));

                    // park until first scheduled
                    let started =
                    {
                        let mut g = ctx2.lock();
                        let cv = g.threads[tid].cv.clone();
                        while g.current != tid && g.abort.is_none()
                        {
                            g = match cv.wait(g) { Ok(g) => g, Err(p) => p.into_inner() };
                        }
                        g.abort.is_none()
                    };

                    let res =
                        if started { panic::catch_unwind(AssertUnwindSafe(f)) }
                        else { Err(Box::new(SimAbort) as Box<dyn Any + Send>) };

                    ctx2.finish(tid);
                    CUR.with(|c| *c.borrow_mut() = None);

                    // signal real exit (after which the root may tear the simulation down)
                    struct Done(Arc<Ctx>);
                    impl Drop for Done
                    {
                        fn drop(&mut self)
                        {
                            let mut g = self.0.lock();
                            g.live -= 1;
                            self.0.done_cv.notify_all();
                        }
                    }
                    let _done = Done(ctx2);

                    match res
                    {
                        Ok(v) => v,
                        Err(payload) => panic::resume_unwind(payload),
                    }
                });
                JoinHandle{ inner : inner, sim : Some((ctx, tid)) }
            },
        }
    }
}

// ---------------------------------------------------------------- mpsc shim

pub mod mpsc
{
    use super::*;
    pub use std::sync::mpsc::{SendError, RecvError};

    struct St<T>
    {
        q : VecDeque<T>,
        senders : usize,
        rx_alive : bool,
    }

    struct Shared<T>
    {
        st : Mutex<St<T>>,
        cv : Condvar,
        sim : Option<(Arc<Ctx>, u32)>,
    }

    impl<T> Shared<T>
    {
        fn lock(&self) -> MutexGuard<'_, St<T>>
        {
            match self.st.lock() { Ok(g) => g, Err(p) => p.into_inner() }
        }
    }

    pub struct Sender<T>
    {
        sh : Arc<Shared<T>>,
    }

    pub struct Receiver<T>
    {
        sh : Arc<Shared<T>>,
    }

    pub fn channel<T>() -> (Sender<T>, Receiver<T>)
    {
        let sim = match cur()
        {
            Some((ctx, _)) =>
            {
                let id =
                {
                    let mut g = ctx.lock();
                    let id = g.next_chan;
                    g.next_chan += 1;
                    id
                };
                Some((ctx, id))
            },
            None => None,
        };
        let sh = Arc::new(Shared
        {
            st : Mutex::new(St{ q : VecDeque::new(), senders : 1, rx_alive : true }),
            cv : Condvar::new(),
            sim : sim,
        });
        (Sender{ sh : sh.clone() }, Receiver{ sh : sh })
    }

    /* The simulation this call should be scheduled under: the channel's, when the calling thread
       belongs to it and is not unwinding. */
    fn sim_of<T>(sh : &Shared<T>) -> Option<(Arc<Ctx>, u32, usize)>
    {
        if std::thread::panicking()
        {
            return None;
        }
        match (&sh.sim, cur())
        {
            (Some((ctx, chan)), Some((cur_ctx, me))) if Arc::ptr_eq(ctx, &cur_ctx) => Some((ctx.clone(), *chan, me)),
            _ => None,
        }
    }

    impl<T> Sender<T>
    {
        pub fn send(&self, t : T) -> Result<(), SendError<T>>
        {
            match sim_of(&self.sh)
            {
                Some((ctx, chan, me)) =>
                {
                    ctx.yield_point(me);
                    let mut st = self.sh.lock();
                    if !st.rx_alive
                    {
                        drop(st);
                        ctx.record(me, Ev::Send{ chan, ok : false });
                        return Err(SendError(t));
                    }
                    st.q.push_back(t);
                    drop(st);
                    ctx.wake_recv(chan);
                    ctx.record(me, Ev::Send{ chan, ok : true });
                    Ok(())
                },
                None =>
                {
                    let mut st = self.sh.lock();
                    if !st.rx_alive
                    {
                        return Err(SendError(t));
                    }
                    st.q.push_back(t);
                    self.sh.cv.notify_all();
                    Ok(())
                },
            }
        }
    }

    impl<T> Clone for Sender<T>
    {
        fn clone(&self) -> Sender<T>
        {
            self.sh.lock().senders += 1;
            Sender{ sh : self.sh.clone() }
        }
    }

    impl<T> Drop for Sender<T>
    {
        fn drop(&mut self)
        {
            let last =
            {
                let mut st = self.sh.lock();
                st.senders -= 1;
                st.senders == 0
            };
            self.sh.cv.notify_all();
            if let Some((ctx, chan)) = &self.sh.sim
            {
                if last
                {
                    ctx.wake_recv(*chan);
                }
                if let Some((_, _, me)) = sim_of(&self.sh)
                {
                    ctx.record(me, Ev::DropTx{ chan : *chan, last });
                }
            }
        }
    }

    impl<T> Receiver<T>
    {
        pub fn recv(&self) -> Result<T, RecvError>
        {
            match sim_of(&self.sh)
            {
                Some((ctx, chan, me)) =>
                {
                    ctx.yield_point(me);
                    loop
                    {
                        {
                            let mut st = self.sh.lock();
                            if let Some(v) = st.q.pop_front()
                            {
                                drop(st);
                                ctx.record(me, Ev::Recv{ chan, ok : true });
                                return Ok(v);
                            }
                            if st.senders == 0
                            {
                                drop(st);
                                ctx.record(me, Ev::Recv{ chan, ok : false });
                                return Err(RecvError);
                            }
                        }
                        ctx.block(me, Status::BlockedRecv(chan));
                    }
                },
                None =>
                {
                    let mut st = self.sh.lock();
                    loop
                    {
                        if let Some(v) = st.q.pop_front()
                        {
                            return Ok(v);
                        }
                        if st.senders == 0
                        {
                            return Err(RecvError);
                        }
                        st = match self.sh.cv.wait(st) { Ok(g) => g, Err(p) => p.into_inner() };
                    }
                },
            }
        }
    }

    impl<T> Drop for Receiver<T>
    {
        fn drop(&mut self)
        {
            {
                let mut st = self.sh.lock();
                st.rx_alive = false;
                st.q.clear();
            }
            if let Some((ctx, chan)) = &self.sh.sim
            {
                if let Some((_, _, me)) = sim_of(&self.sh)
                {
                    ctx.record(me, Ev::DropRx(*chan));
                }
            }
        }
    }
}
