// model.rs — the reference model: "evaluate the rule graph from scratch on the current sources".
// Shares only the scenario data types with the rest; calls no ruler code.

use std::collections::{BTreeMap, BTreeSet};

use super::scen::{SRule, Line};

#[derive(Clone, Debug, PartialEq)]
pub enum FailKind
{
    CommandFailed,
    NotGenerated(String),
}

#[derive(Clone, Debug, PartialEq)]
pub enum Outcome
{
    /* target -> (bytes, exec), in sorted target order */
    Built(Vec<(String, Vec<u8>, bool)>),
    Fails(FailKind),
    Cancelled,
}

#[derive(Clone, Debug, PartialEq)]
pub enum GraphError
{
    DuplicateTarget(String),
    UnknownGoal(String),
    SelfDependent(String),
    Cycle,
}

#[derive(Clone, Debug)]
pub struct ModelResult
{
    /* indices (into the rule list) of the rules in scope */
    pub scope : Vec<usize>,
    pub outcomes : BTreeMap<usize, Outcome>,
    /* leaves in scope that do not exist */
    pub missing_leaves : Vec<String>,
    /* all leaves in scope */
    pub leaves : Vec<String>,
    /* contents of the declared sources of each in-scope rule whose prerequisites all succeeded,
       in sorted source order */
    pub source_contents : BTreeMap<usize, Vec<Vec<u8>>>,
}

impl ModelResult
{
    pub fn all_built(&self) -> bool
    {
        self.outcomes.values().all(|o| match o { Outcome::Built(_) => true, _ => false })
    }

    pub fn expected_target(&self, path : &str) -> Option<(&Vec<u8>, bool)>
    {
        for o in self.outcomes.values()
        {
            if let Outcome::Built(v) = o
            {
                for (p, b, x) in v.iter()
                {
                    if p == path { return Some((b, *x)); }
                }
            }
        }
        None
    }
}

pub fn target_owner(rules : &[SRule]) -> Result<BTreeMap<String, usize>, GraphError>
{
    let mut owner = BTreeMap::new();
    for (i, r) in rules.iter().enumerate()
    {
        for t in r.sorted_targets()
        {
            if owner.insert(t.clone(), i).is_some()
            {
                return Err(GraphError::DuplicateTarget(t));
            }
        }
    }
    Ok(owner)
}

/* The goal's rule and its transitive prerequisites (or all rules); error if the reachable part
   has a cycle. */
pub fn scope_of(rules : &[SRule], goal : Option<&str>) -> Result<Vec<usize>, GraphError>
{
    let owner = target_owner(rules)?;
    let roots : Vec<usize> = match goal
    {
        Some(g) => match owner.get(g)
        {
            Some(i) => vec![*i],
            None => return Err(GraphError::UnknownGoal(g.to_string())),
        },
        None => (0..rules.len()).collect(),
    };

    // iterative DFS with colours: 0 white, 1 grey, 2 black
    let mut colour = vec![0u8; rules.len()];
    let mut order = vec![];
    for root in roots
    {
        if colour[root] != 0 { continue; }
        let mut stack : Vec<(usize, usize)> = vec![(root, 0)];
        colour[root] = 1;
        while let Some((node, next)) = stack.pop()
        {
            let sources = rules[node].sorted_sources();
            if next < sources.len()
            {
                stack.push((node, next + 1));
                if let Some(dep) = owner.get(&sources[next])
                {
                    if *dep == node
                    {
                        return Err(GraphError::SelfDependent(sources[next].clone()));
                    }
                    match colour[*dep]
                    {
                        0 => { colour[*dep] = 1; stack.push((*dep, 0)); },
                        1 => return Err(GraphError::Cycle),
                        _ => {},
                    }
                }
            }
            else
            {
                colour[node] = 2;
                order.push(node);
            }
        }
    }
    Ok(order)
}

thread_local!
{
    /* leaves that are directories: (directory, member files).  A directory is a legitimate source
       (ruler hashes its listing and every file below it); what a rule "sees" of it is, for the
       harness, the members' names and bytes. */
    static DIR_LEAVES : std::cell::RefCell<Vec<(String, Vec<String>)>> = std::cell::RefCell::new(vec![]);
}

pub fn set_dir_leaves(v : Vec<(String, Vec<String>)>)
{
    DIR_LEAVES.with(|d| *d.borrow_mut() = v);
}

pub fn dir_leaf_members(path : &str) -> Option<Vec<String>>
{
    DIR_LEAVES.with(|d| d.borrow().iter().find(|(p, _)| p == path).map(|(_, m)| m.clone()))
}

/* path of a declared source -> what the harness takes as its content: a file's bytes, or for a
   directory leaf an unambiguous serialisation of (name, bytes) of its members */
pub fn leaf_bytes(path : &str, file : &dyn Fn(&str) -> Option<Vec<u8>>) -> Option<Vec<u8>>
{
    match dir_leaf_members(path)
    {
        None => file(path),
        Some(members) =>
        {
            let mut out = vec![];
            let mut any = false;
            for m in members.iter()
            {
                if let Some(c) = file(m)
                {
                    any = true;
                    out.extend_from_slice(m.as_bytes());
                    out.push(0);
                    out.extend_from_slice(&(c.len() as u64).to_le_bytes());
                    out.extend_from_slice(&c);
                }
            }
            if any { Some(out) } else { None }
        },
    }
}

/* Evaluate.  `file` returns the current content of a workspace file (None = does not exist). */
pub fn evaluate(rules : &[SRule], goal : Option<&str>, file : &dyn Fn(&str) -> Option<Vec<u8>>) -> Result<ModelResult, GraphError>
{
    let owner = target_owner(rules)?;
    let scope = scope_of(rules, goal)?;   // already in dependency order
    let mut outcomes : BTreeMap<usize, Outcome> = BTreeMap::new();
    let mut produced : BTreeMap<String, Vec<u8>> = BTreeMap::new();
    let mut leaves = BTreeSet::new();
    let mut missing = BTreeSet::new();
    let mut source_contents = BTreeMap::new();

    for idx in scope.iter()
    {
        let rule = &rules[*idx];
        let mut cancelled = false;
        let mut contents = vec![];
        for s in rule.sorted_sources()
        {
            match owner.get(&s)
            {
                Some(p) =>
                {
                    match outcomes.get(p)
                    {
                        Some(Outcome::Built(_)) => contents.push(produced[&s].clone()),
                        _ => cancelled = true,
                    }
                },
                None =>
                {
                    leaves.insert(s.clone());
                    match leaf_bytes(&s, file)
                    {
                        Some(c) => contents.push(c),
                        None => { missing.insert(s.clone()); cancelled = true; },
                    }
                },
            }
        }
        if cancelled
        {
            outcomes.insert(*idx, Outcome::Cancelled);
            continue;
        }
        source_contents.insert(*idx, contents);

        let read = |path : &str| -> Option<Vec<u8>>
        {
            match produced.get(path)
            {
                Some(c) => Some(c.clone()),
                None => file(path),
            }
        };

        let mut written : BTreeMap<String, (Vec<u8>, bool)> = BTreeMap::new();
        let mut failed = false;
        for line in rule.lines.iter()
        {
            match line
            {
                Line::Fail => { failed = true; break; },
                Line::FailIf{ input } =>
                {
                    match read(input)
                    {
                        Some(c) => if c.windows(4).any(|w| w == b"FAIL") { failed = true; break; },
                        None => { failed = true; break; },
                    }
                },
                Line::Emit{ target, salt, inputs, exec } =>
                {
                    let mut content = salt.as_bytes().to_vec();
                    let mut ok = true;
                    for i in inputs.iter()
                    {
                        // an emit may read a target this very script wrote earlier
                        match written.get(i).map(|(c, _)| c.clone()).or_else(|| read(i))
                        {
                            Some(c) => content.extend_from_slice(&c),
                            None => { ok = false; break; },
                        }
                    }
                    if !ok { failed = true; break; }
                    written.insert(target.clone(), (content, *exec));
                },
            }
        }
        if failed
        {
            outcomes.insert(*idx, Outcome::Fails(FailKind::CommandFailed));
            continue;
        }
        let mut out = vec![];
        let mut not_generated = None;
        for t in rule.sorted_targets()
        {
            match written.get(&t)
            {
                Some((c, x)) => out.push((t.clone(), c.clone(), *x)),
                None => { if not_generated.is_none() { not_generated = Some(t.clone()); } },
            }
        }
        match not_generated
        {
            Some(t) => { outcomes.insert(*idx, Outcome::Fails(FailKind::NotGenerated(t))); },
            None =>
            {
                for (t, c, _) in out.iter()
                {
                    produced.insert(t.clone(), c.clone());
                }
                outcomes.insert(*idx, Outcome::Built(out));
            },
        }
    }

    Ok(ModelResult
    {
        scope : scope,
        outcomes : outcomes,
        missing_leaves : missing.into_iter().collect(),
        leaves : leaves.into_iter().collect(),
        source_contents : source_contents,
    })
}
