// harness.rs — entry point of the verification harness.  Compiled into ruler's own test binary
// through the hook in src/main.rs:  #[cfg(ruler_verif)] mod verif { include!(".../harness.rs"); }

pub mod util { include!(concat!(env!("RULER_VERIF_DIR"), "/util.rs")); }
pub mod rt { include!(concat!(env!("RULER_VERIF_DIR"), "/rt.rs")); }
pub mod simsys { include!(concat!(env!("RULER_VERIF_DIR"), "/simsys.rs")); }
pub mod scen { include!(concat!(env!("RULER_VERIF_DIR"), "/scen.rs")); }
pub mod model { include!(concat!(env!("RULER_VERIF_DIR"), "/model.rs")); }
pub mod gen { include!(concat!(env!("RULER_VERIF_DIR"), "/gen.rs")); }
pub mod hist { include!(concat!(env!("RULER_VERIF_DIR"), "/hist.rs")); }
pub mod engines { include!(concat!(env!("RULER_VERIF_DIR"), "/engines.rs")); }
pub mod server_sim { include!(concat!(env!("RULER_VERIF_DIR"), "/server_sim.rs")); }

pub use self::server_sim::{server_in_memory, drive_server};

#[cfg(test)]
mod entry
{
    use super::engines;

    /* The worker: configuration comes from the environment (see /verif/check). */
    #[test]
    #[ignore]
    fn worker()
    {
        let code = engines::worker_main();
        if code != 0
        {
            std::process::exit(code);
        }
    }
}
