#!/usr/bin/env python3
"""Writes /verif/MANIFEST.json from the table below (single source of truth for the interface)."""
import json, os

ROOT = os.path.dirname(os.path.abspath(__file__))

TECH = "deterministic simulation with fault injection: real build()/clean() on a seeded scheduler shim (simrt) + simulated disk/clock (SimSystem); "

CHECKS = {
 "C01": ("exploration", "§C01", TECH + "seeded histories, oracle = independent from-scratch reference model",
         "Seeded search over histories x schedules: after every build that returns Ok each in-scope target is compared byte-for-byte with an independent reference evaluation of the rule graph on the current sources. Sampling, not proof; bounds: <= 8/14 rules (one case in 250: a crowd of 40-220 rules over up to 300 leaves), <= 8/12 operations (occasionally 3x; soaks of 20-2100 source states); configuration (ruler directory, rules-file names, time origin), name shapes (long, non-ASCII, outside the workspace) and directory sources are varied per case.",
         "reference model + stub command interpreter implement the same content function; clock model 'distinct' (the property's assumption); SimSystem faithful to RealSystem (conformance probe)"),
 "C02": ("exploration", "§C02", TECH + "command log + mutation log checked against the harness's own execution record",
         "Every build's command log is checked for at-most-once, no-change rebuilds must run nothing and mutate nothing outside the ruler directory, and must-not-run obligations are derived from the harness's own record of earlier successful executions and the pre-build cache contents.",
         "obligations are scoped as the property states (record dropped when the user deletes history; one cache file cannot serve two restores)"),
 "C03": ("exploration", "§C03", TECH + "one build re-executed under many seeded schedules; invariant on the totally ordered event history",
         "For each (scenario, pre-state) the same build is executed under K schedules (serial, reverse, uniform, sticky, PCT, starvation); at every command start the declared sources' contents are compared with the reference model, must never be touched afterwards, and must have been examined by another thread before.",
         "visible-operation granularity (every System call, channel operation, thread start/finish); oracle (c) assumes up-to-dateness is established through the System seam"),
 "C04": ("exploration", "§C04", TECH + "failing rules / missing leaves under many schedules + follow-up histories; oracle = reference model's failure set",
         "Graphs with failing commands, ungenerated targets and missing leaves are built under K schedules; the reported error multiset must equal the reference model's and the rendered report must carry every one of them, cancelled rules must run nothing, independent rules must be correct, the failure must be retried by the next build and a repaired build must succeed.",
         "a failing stub command writes nothing (the property's assumption)"),
 "C05": ("exploration", "§C05", TECH + "scheduler-level deadlock / step-bound / panic / channel-error detection over many seeded schedules",
         "The scheduler owns every thread and channel, so a deadlock is a state with no runnable thread, a livelock a step-bound overrun, and every panic and failed send/recv is observed directly; explored over valid, failing, goal-restricted and invalid graphs, damaged state files, removed output directories and a directory at a target's path, build and clean, K schedules each.",
         "step bound 150 000 + 400 per workspace file visible operations per invocation (evidence counts the invocations that came within a fifth of it)"),
 "C06": ("exploration", "§C06", TECH + "differential: same pre-state snapshot under K schedules, verdict and workspace bytes compared with the serial schedule",
         "For scenarios biased to equal contents and cleaned states (sometimes with the emptied output directories removed by the user), the same build from the same disk snapshot is executed under K schedules; verdict (error multiset) and final bytes+exec bit of every workspace file must be identical to the serial schedule's.",
         "ruler directory compared only informationally"),
 "C07": ("exploration", "§C07", TECH + "cache audit with an independent SHA-256/base-62 after every invocation and at every rename into/out of the cache",
         "After every invocation every cache entry is re-hashed with the harness's own SHA-256 and base-62; additionally every rename into the cache is checked at the moment it happens, and every recovered target against the recorded output.",
         "clock model 'distinct' (the property's assumption)"),
 "C08": ("exploration", "§C08", TECH + "conservation of byte strings over (target paths + cache) across every invocation + per-rename overwrite check",
         "The set of byte strings at declared target paths and in the cache before an invocation must be a subset of the set afterwards, and no ruler rename/create may replace different bytes.",
         "commands are atomic and deterministic (the property's assumption)"),
 "C09": ("exploration", "§C09", TECH + "attribution of every mutating System call + before/after comparison of every out-of-scope file",
         "Every mutating call issued by ruler must name an in-scope target or a path inside the ruler directory; content, mtime and exec bit of every other file must be unchanged; all goal choices, build and clean.",
         "scope computed by the harness's own closure over the rule graph"),
 "C10": ("exploration", "§C10", TECH + "clean/build histories with restore obligations; plus RealSystem-vs-SimSystem conformance probe",
         "After each clean no in-scope target may exist and its bytes must be cached; a build after clean(s) of an up-to-date scope must succeed, restore bytes and exec bits, and run nothing when contents are pairwise different. The real-file-system half of the quantifier is covered by validation of the stub against the real stack, not by simulation: a 46-step probe of System primitives on RealSystem vs SimSystem, and whole generated scenarios executed on RealSystem with /bin/sh and in the simulator with workspace bytes, exec bits, cached contents, verdicts and status lines compared after every operation.",
         "real kernels, shells and mtime granularity are outside the simulator"),
 "C11": ("fault_enumeration", "§C11", TECH + "process kill enumerated at every mutation index (and torn prefixes of every write) of victim executions; recovery build from each crash image",
         "For every scenario of a seeded corpus the victim build/clean is executed under serial and sampled schedules; the disk is snapshotted before every mutation and at torn prefixes of every write; each crash image is audited (C07, C08) and then recovered by a fresh build that must succeed and satisfy C01; a third of the recovered workspaces are followed further (goal-restricted recovery, full build, clean, build, edit, build, revert, build) and a sample of recovery builds is killed again.",
         "kill, not power loss; quick tier caps crash states per execution"),
 "C16": ("fault_enumeration", "§C16", TECH + "storage faults on state files (every strict prefix, bit flips, garbage) written/read through the simulated disk by the real writers/readers",
         "Random rule histories and file-state tables are written by the real writers with short writes, then read back by the real readers with short reads after: no fault (must round-trip), every strict prefix (must be rejected), single-bit flips and random garbage (must not panic); one instance in 40 is a file beyond 64 KiB, 1 MiB or 16 MiB, and every pair the harness inserted must be found again.",
         "exhaustive for the prefix space and the bit-flip space of each small instance"),
 "C17": ("exploration", "§C17", TECH + "undeclared-input change as the injected fault; oracle = harness's own record of outputs",
         "Rules with an undeclared input are built, the input is changed, re-execution is forced, and the build must fail with exactly one Contradiction naming exactly the differing targets; after restoring the input the original record must still be in force; in a third of the histories the rule is first built from other states of its declared sources, with cache evictions in between.",
         "forced re-execution = tampered/deleted target with its cache entry removed"),
 "C18": ("exploration", "§C18", TECH + "differential: each history run as is and with the file-state table erased before every build, under two clock models",
         "Verdict and workspace bytes after every build must agree between the two executions, under the 'distinct', the 'unordered' and the coarse 'tick' clock; policy schedules (serial, reverse) so that schedule effects cannot masquerade as table effects; a probe for table entries attached to a different file guides extension of histories in which nothing has differed yet; a third of the targeted histories have a bystander rule that fails in some builds.",
         "tick clock: one tick per user action or ruler invocation"),
 "C19": ("exploration", "§C19", TECH + "real route closures driven in memory (warp::test) on ruler directories produced by simulated histories; oracle = independent listing of the disk",
         "Every cached hash, every recorded (rule, sources) pair, absent names, names whose value is a present hash + 2^256, hostile/malformed paths, the same names with conditional/range/proxy headers, as HEAD and with query strings, and occasionally a cache entry of 16 MiB + 1 or 129 MiB + 7 bytes are requested from one long-lived server instance per directory, while further builds/cleans change the directory between requests; status and body are compared with an independent model of the directory recomputed per phase.",
         "transport stubbed (no TCP); everything behind the filter is real"),
 "C20": ("exploration", "§C20", TECH + "recorded Printer output compared with what the event history says happened to each target",
         "For every successful rule exactly one status per target, Built iff its command ran, Recovered iff a cache->target rename happened, Up-to-date iff nothing touched it; none for failed/cancelled rules.",
         "statuses compared only when the reported errors equal the reference model's"),
}

NOT_APPLICABLE = {
 "C12": "topological_sort[_all] is a pure function of the rule list: no schedule, clock, I/O, fault or history for a simulator to control; deciding it means enumerating graphs against a reference sorter, which is input generation/model checking, not simulation. (It is exercised, not decided: every simulated build goes through it, and a wrong plan surfaces as a C01/C03/C05/C10 violation — one did, see known_findings.json.)",
 "C13": "Rule::get_ticket is a pure function of three string lists; injectivity over pairs of rules has no interleaving, time or fault in it. (Its end-to-end consequence — stale results after a near-miss rule edit — is inside C01's history space.)",
 "C14": "rule::parse / bundle are pure, single-threaded text -> value functions; totality and faithfulness are questions for grammar-based generation or proof, not for a scheduler or fault injector.",
 "C15": "SHA-256/base-62 fidelity is a pure function of bytes. The one I/O aspect (chunked reads) is exercised by SimSystem's short-read knob in every run, and cache-name audits use an independent implementation, but the property as stated is decided by input enumeration, which is outside this family.",
}


def main():
    import sys
    built = sys.argv[1:] or sorted(CHECKS)
    checks = []
    for pid in sorted(CHECKS):
        if pid not in built:
            continue
        level, ref, tech, text, note = CHECKS[pid]
        checks.append({
            "property_id": pid,
            "quick_cmd": "./check %s --tier quick" % pid,
            "thorough_cmd": "./check %s --tier thorough" % pid,
            "evidence_file": "/verif/evidence/%s.json" % pid,
            "replay_cmd_template": "./check %s --replay {path}" % pid,
            "engine": "simrt+SimSystem",
            "level_claimed": {"category": level, "text": text, "design_ref": "DESIGN.md " + ref},
            "level_note": note,
            "technique": tech,
        })
    na = [{"property_id": k, "reason": v} for k, v in sorted(NOT_APPLICABLE.items())]
    for pid in sorted(CHECKS):
        if pid not in built:
            na.append({"property_id": pid, "reason": "check designed (DESIGN.md %s) but not built yet at this commit; not claimed until it is" % CHECKS[pid][1]})
    manifest = {
        "version": 1,
        "setup_cmd": "./build.sh",
        "hooks": {
            "guard": "ruler_verif",
            "enable": "RUSTFLAGS='--cfg ruler_verif' RULER_VERIF_DIR=/verif/sim CARGO_TARGET_DIR=/verif/target cargo test --offline --release --no-run --bin ruler --manifest-path /repo/Cargo.toml  (wrapped by ./build.sh; the harness in /verif/sim is compiled into ruler's own test binary)",
            "baseline_off_cmd": "cd /repo && cargo test --workspace --no-fail-fast --offline",
            "source_commits": ["0261049", "2145116"],
            "add_only": True,
        },
        "engines": [
            {"name": "simrt+SimSystem", "path": "/verif/sim", "serves_properties": [c["property_id"] for c in checks],
             "kind_free_text": "deterministic simulator: seeded scheduler owning every thread/channel choice (real OS threads, baton passing), in-memory disk with mutation-indexed snapshots, simulated clock, stub command interpreter, recording printer, reference model, delta-debugging minimiser, replay files"},
        ],
        "checks": checks,
        "not_applicable": na,
        "notes": "Driver: ./check <ID> [--tier quick|thorough] [--replay FILE]; ./check selftest proves determinism. Exit 0 held / 1 violation (VIOLATION line) / 2 harness error. Known findings: /verif/known_findings.json. Default seed 1; VERIF_SEED changes every random choice.",
    }
    with open(os.path.join(ROOT, "MANIFEST.json"), "w") as f:
        json.dump(manifest, f, indent=1)
    print("MANIFEST.json: %d checks, %d not applicable" % (len(checks), len(na)))


if __name__ == "__main__":
    main()
