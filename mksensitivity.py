#!/usr/bin/env python3
"""Regenerates the tables of DESIGN.md §14.1/§14.2 from seeded/*/meta.json and sensitivity/mutants.json
(everything between the markers <!-- seeded-table --> / <!-- mutant-table --> and their end markers)."""
import json, os, re

ROOT = os.path.dirname(os.path.abspath(__file__))

PASSING_BASELINE = {
    'C01-dependents-get-ticket-of-first-target', 'C02+C10-absent-target-is-rebuilt-not-restored',
    'C03-remembered-tickets-sent-before-targets-are-resolved', 'C04-failed-rule-sends-empty-ticket-instead-of-cancel',
    'C05-error-path-skips-first-dependent', 'C06-revert-fix-b2b9229-three-thread-cache-race', 'C06-revert-fix-f5f2282-cache-race',
    'C08-no-backup-before-restore', 'C09-clean-ignores-goal', 'C10-clean-skips-targets-unknown-to-the-table',
    'C10-revert-fix-a92c30d-sort-false-cycle', 'C11-revert-fix-d7a08ad-atomic-state-files', 'C16-history-written-with-single-write-call',
    'C18-revert-fix-stale-state-after-restore', 'C07+C01-file-hash-skips-256th-byte-of-a-full-buffer', 'C20-every-target-gets-the-first-targets-status', 'C20-recovered-and-up-to-date-texts-swapped',
}


def seeded_table():
    rows = ["| change | property | what it does | needs | caught by: signatures (first two) | also caught by (reduced budget) |", "|---|---|---|---|---|---|"]
    for n in sorted(os.listdir(os.path.join(ROOT, "seeded"))):
        m = json.load(open(os.path.join(ROOT, "seeded", n, "meta.json")))
        det = m.get("detected_by", [])
        sigs = []
        for p, o in m.get("checks", {}).items():
            if o["exit"] == 1:
                sigs += [v.replace(p + "_", "", 1) for v in o["violations"]][:2]
        also = ", ".join(m.get("also_detected_by_at_reduced_budget", [])) or ""
        rows.append("| `%s` | %s | %s | %s | %s: %s | %s |" % (n, m["property"], m.get("what", ""), m.get("needs_to_manifest", ""), ", ".join(det) or "—", ", ".join(sigs), also))
    return "\n".join(rows)


def mutant_table():
    mut = json.load(open(os.path.join(ROOT, "sensitivity", "mutants.json")))["results"]
    rows = ["| mutant | tests | caught by |", "|---|---|---|"]
    for e in sorted(mut, key=lambda e: e["patch"]):
        name = e["patch"][:-6]
        det = [p for p, o in e.get("checks", {}).items() if o["exit"] == 1]
        rows.append("| `%s` | %s | %s |" % (name, "209/209" if name in PASSING_BASELINE else "some fail", ", ".join(det) or "MISSED"))
    return "\n".join(rows)


def main():
    p = os.path.join(ROOT, "DESIGN.md")
    s = open(p).read()
    for marker, table in (("seeded-table", seeded_table()), ("mutant-table", mutant_table())):
        a, b = "<!-- %s -->" % marker, "<!-- /%s -->" % marker
        if a in s and b in s:
            s = s[:s.index(a) + len(a)] + "\n" + table + "\n" + s[s.index(b):]
    open(p, "w").write(s)


if __name__ == "__main__":
    main()
