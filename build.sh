#!/bin/sh
# Build the guarded test binary of ruler (harness compiled in) from $VERIF_REPO (default /repo).
# Prints the path of the executable on the last line.
HERE="$(cd "$(dirname "$0")" && pwd)"
REPO="${VERIF_REPO:-/repo}"
PROFILE_FLAG="${VERIF_PROFILE_FLAG:---release}"
export RULER_VERIF_DIR="${VERIF_SIM_DIR:-$HERE/sim}" CARGO_TARGET_DIR="${VERIF_TARGET:-$HERE/target}" RUSTFLAGS="--cfg ruler_verif -C overflow-checks=on" CARGO_NET_OFFLINE=true
cargo test --offline --no-run $PROFILE_FLAG --bin ruler --manifest-path "$REPO/Cargo.toml" --message-format=json 2>/dev/null \
  | python3 -c '
import sys, json
exe = None
for line in sys.stdin:
    try: j = json.loads(line)
    except Exception: continue
    if j.get("reason") == "compiler-message" and j["message"].get("level") == "error":
        sys.stderr.write(j["message"].get("rendered", ""))
    if j.get("reason") == "compiler-artifact" and j.get("executable") and j.get("profile", {}).get("test"):
        exe = j["executable"]
if exe: print(exe)
else: sys.exit(1)
'
