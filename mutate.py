#!/usr/bin/env python3
"""Sensitivity: run checks against property-breaking patches in a scratch worktree of /repo.

  ./mutate.py [--baseline] [--tier quick] [--props C01,C02] PATCH...     explicit patches
  ./mutate.py [--baseline] all                                           every /verif/mutants/*.patch

For a patch named  <P1>[+<P2>...]-<description>.patch  the checks of P1, P2, ... are run (override
with --props).  With --baseline the repository's own test suite is first run on the patched tree
(it must still pass: the point of a mutant is that the tests cannot see it).
The patched tree lives under /root/scratch and is removed afterwards; /repo is never modified.
Results are merged into /verif/sensitivity/mutants.json.
"""
import json, os, re, subprocess, sys, time

ROOT = os.path.dirname(os.path.abspath(__file__))
SCRATCH = os.path.join("/root/scratch", os.environ.get("SCRATCH_TAG", "mut0"))


def sh(cmd, **kw):
    return subprocess.run(cmd, stdout=subprocess.PIPE, stderr=subprocess.STDOUT, text=True, **kw)


def main():
    args = sys.argv[1:]
    baseline = False
    tier = "quick"
    props_override = None
    patches = []
    extra = []
    i = 0
    while i < len(args):
        a = args[i]
        if a == "--baseline": baseline = True; i += 1
        elif a == "--tier": tier = args[i + 1]; i += 2
        elif a == "--props": props_override = args[i + 1].split(","); i += 2
        elif a == "--runs": extra += ["--runs", args[i + 1]]; i += 2
        elif a == "all":
            d = os.path.join(ROOT, "mutants")
            patches += sorted(os.path.join(d, f) for f in os.listdir(d) if f.endswith(".patch"))
            i += 1
        else: patches.append(os.path.abspath(a)); i += 1
    if not patches:
        print(__doc__); sys.exit(2)

    os.makedirs(SCRATCH, exist_ok=True)
    sim_snapshot = os.path.join(SCRATCH, "mutant-sim-snapshot")
    sh(["rm", "-rf", sim_snapshot])
    sh(["cp", "-r", os.path.join(ROOT, "sim"), sim_snapshot])
    wt = os.path.join(SCRATCH, "mutant-tree")
    target = os.path.join(SCRATCH, "mutant-target")
    results = []
    for patch in patches:
        name = os.path.basename(patch)
        m = re.match(r"((?:C\d+\+?)+)-", name)
        props = props_override or (m.group(1).split("+") if m else [])
        sh(["git", "-C", "/repo", "worktree", "remove", "--force", wt])
        sh(["rm", "-rf", wt])
        r = sh(["git", "-C", "/repo", "worktree", "add", "--detach", wt, "HEAD"])
        if r.returncode != 0:
            print(r.stdout); sys.exit(2)
        r = sh(["git", "-C", wt, "apply", patch])
        entry = {"patch": name, "properties": props, "tier": tier, "at": time.strftime("%Y-%m-%dT%H:%M:%S")}
        if r.returncode != 0:
            entry["error"] = "patch does not apply: " + r.stdout[-500:]
            print("%-70s DOES NOT APPLY" % name)
            results.append(entry)
            continue
        if baseline:
            r = sh(["cargo", "test", "--offline", "--workspace", "--no-fail-fast"], cwd=wt,
                   env=dict(os.environ, CARGO_TARGET_DIR=os.path.join(SCRATCH, "mutant-baseline-target")))
            mm = re.search(r"test result: (\w+)\. (\d+) passed; (\d+) failed", r.stdout)
            entry["baseline"] = {"passed": int(mm.group(2)), "failed": int(mm.group(3))} if mm else {"error": r.stdout[-800:]}
        outcome = {}
        for p in props:
            env = dict(os.environ, VERIF_REPO=wt, VERIF_TARGET=target, VERIF_SIM_DIR=sim_snapshot, VERIF_OUT_TAG="mutants")
            r = sh([os.path.join(ROOT, "check"), p, "--tier", tier, "--no-evidence"] + extra, env=env, cwd=ROOT)
            sigs = re.findall(r"VIOLATION property=(\S+) replay=(\S+)", r.stdout)
            outcome[p] = {"exit": r.returncode, "violations": [os.path.basename(s[1])[:-5] for s in sigs]}
            if r.returncode == 2:
                outcome[p]["harness_error"] = r.stdout[-600:]
        entry["checks"] = outcome
        detected = [p for p, o in outcome.items() if o["exit"] == 1]
        print("%-70s %s %s" % (name, "DETECTED by " + ",".join(detected) if detected else "MISSED",
                                "" if not baseline else "(baseline %s)" % entry.get("baseline")))
        for p, o in outcome.items():
            if o["exit"] == 2:
                print("   harness error in %s: %s" % (p, o.get("harness_error", "")[-300:]))
        results.append(entry)
    sh(["git", "-C", "/repo", "worktree", "remove", "--force", wt])
    sh(["rm", "-rf", wt])
    sh(["git", "-C", "/repo", "worktree", "prune"])

    os.makedirs(os.path.join(ROOT, "sensitivity"), exist_ok=True)
    path = os.path.join(ROOT, "sensitivity", "mutants.json")
    old = []
    if os.path.exists(path):
        try: old = json.load(open(path)).get("results", [])
        except Exception: old = []
    keep = [e for e in old if e["patch"] not in {r["patch"] for r in results}]
    json.dump({"results": keep + results}, open(path, "w"), indent=1)


if __name__ == "__main__":
    main()
