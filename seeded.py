#!/usr/bin/env python3
"""Confirm and evaluate seeded property-breaking changes written by independent sub-agents.

  ./seeded.py import  <ID> <bugdir> <name>     copy patch.diff/demo.diff/README.md into seeded/<name>/
  ./seeded.py confirm <name>...                demo passes on HEAD, fails with patch; suite passes with patch
  ./seeded.py run     <name>... [--all-props]  run the property's check (or all checks) against the patch
  ./seeded.py table                            print which check catches which change

Everything happens in scratch worktrees under /root/scratch/<tag>; /repo is never modified.
"""
import json, os, re, subprocess, sys, time

ROOT = os.path.dirname(os.path.abspath(__file__))
SEEDED = os.path.join(ROOT, "seeded")
TAG = os.environ.get("SCRATCH_TAG", "seed0")
SCRATCH = os.path.join("/root/scratch", TAG)
ALL_PROPS = ["C01", "C02", "C03", "C04", "C05", "C06", "C07", "C08", "C09", "C10", "C11", "C16", "C17", "C18", "C19", "C20"]


def sh(cmd, **kw):
    return subprocess.run(cmd, stdout=subprocess.PIPE, stderr=subprocess.STDOUT, text=True, **kw)


def fresh_tree():
    wt = os.path.join(SCRATCH, "tree")
    sh(["git", "-C", "/repo", "worktree", "remove", "--force", wt])
    sh(["rm", "-rf", wt])
    os.makedirs(SCRATCH, exist_ok=True)
    r = sh(["git", "-C", "/repo", "worktree", "add", "--detach", wt, "HEAD"])
    if r.returncode != 0:
        print(r.stdout); sys.exit(2)
    return wt


def drop_tree():
    wt = os.path.join(SCRATCH, "tree")
    sh(["git", "-C", "/repo", "worktree", "remove", "--force", wt])
    sh(["rm", "-rf", wt])
    sh(["git", "-C", "/repo", "worktree", "prune"])


def suite(wt):
    r = sh(["cargo", "test", "--offline", "--workspace", "--no-fail-fast"], cwd=wt,
           env=dict(os.environ, CARGO_TARGET_DIR=os.path.join(SCRATCH, "debug-target")))
    m = re.search(r"test result: \w+\. (\d+) passed; (\d+) failed", r.stdout)
    failed = re.findall(r"^test (\S+) \.\.\. FAILED", r.stdout, re.M)
    if not m:
        return {"error": r.stdout[-1500:]}
    return {"passed": int(m.group(1)), "failed": int(m.group(2)), "failed_tests": failed}


def meta_path(name):
    return os.path.join(SEEDED, name, "meta.json")


def load_meta(name):
    p = meta_path(name)
    return json.load(open(p)) if os.path.exists(p) else {}


def save_meta(name, meta):
    json.dump(meta, open(meta_path(name), "w"), indent=1)


def confirm(name):
    d = os.path.join(SEEDED, name)
    meta = load_meta(name)
    wt = fresh_tree()
    res = {}
    # demo only
    r = sh(["git", "-C", wt, "apply", os.path.join(d, "demo.diff")])
    if r.returncode != 0:
        res["error"] = "demo.diff does not apply: " + r.stdout[-300:]
    else:
        res["head_plus_demo"] = suite(wt)
        r = sh(["git", "-C", wt, "apply", os.path.join(d, "patch.diff")])
        if r.returncode != 0:
            res["error"] = "patch.diff does not apply on top of demo.diff: " + r.stdout[-300:]
        else:
            res["patch_plus_demo"] = suite(wt)
    wt = fresh_tree()
    r = sh(["git", "-C", wt, "apply", os.path.join(d, "patch.diff")])
    if r.returncode != 0:
        res["error"] = "patch.diff does not apply: " + r.stdout[-300:]
    else:
        res["patch_only"] = suite(wt)
    ok = ("error" not in res
          and res["head_plus_demo"].get("failed") == 0 and res["head_plus_demo"].get("passed", 0) > 209
          and res["patch_plus_demo"].get("failed", 0) > 0
          and res["patch_only"].get("failed") == 0 and res["patch_only"].get("passed") == 209)
    if ok:
        # every failure with patch+demo must be a demo test (i.e. not one of the 209)
        res["demo_tests"] = res["patch_plus_demo"]["failed_tests"]
    meta["confirmed"] = ok
    meta["confirmation"] = res
    meta["confirmed_at"] = time.strftime("%Y-%m-%dT%H:%M:%S")
    save_meta(name, meta)
    print("%-44s %s" % (name, "CONFIRMED" if ok else "NOT CONFIRMED " + json.dumps(res)[:400]))
    drop_tree()


def run(name, props):
    d = os.path.join(SEEDED, name)
    meta = load_meta(name)
    wt = fresh_tree()
    r = sh(["git", "-C", wt, "apply", os.path.join(d, "patch.diff")])
    if r.returncode != 0:
        print(name, "patch does not apply"); return
    cross = len(EXTRA) > 0
    results = meta.get("cross_checks" if cross else "checks", {})
    for p in props:
        env = dict(os.environ, VERIF_REPO=wt, VERIF_TARGET=os.path.join(SCRATCH, "verif-target"), VERIF_OUT_TAG=TAG, VERIF_SIM_DIR=SIM_SNAPSHOT)
        t0 = time.time()
        r = sh([os.path.join(ROOT, "check"), p, "--no-evidence"] + EXTRA, env=env, cwd=ROOT)
        sigs = re.findall(r"VIOLATION property=(\S+) replay=(\S+)", r.stdout)
        results[p] = {"exit": r.returncode, "violations": sorted(set(os.path.basename(s[1])[:-5] for s in sigs)), "seconds": round(time.time() - t0, 1),
                      "args": EXTRA}
        if r.returncode == 2:
            results[p]["harness_error"] = r.stdout[-800:]
        print("%-44s %s: %s %s" % (name, p, {0: "missed", 1: "DETECTED", 2: "HARNESS ERROR"}.get(r.returncode, r.returncode), results[p]["violations"]))
        if r.returncode == 2:
            print(r.stdout[-600:])
    if cross:
        meta["cross_checks"] = results
        meta["also_detected_by_at_reduced_budget"] = sorted(p for p, o in results.items() if o["exit"] == 1 and p != meta.get("property"))
    else:
        meta["checks"] = results
        meta["detected_by"] = sorted(p for p, o in results.items() if o["exit"] == 1)
    save_meta(name, meta)
    drop_tree()


EXTRA = []
SIM_SNAPSHOT = os.path.join(SCRATCH, "sim-snapshot")


def snapshot_sim():
    # the harness sources as they are now: later edits in /verif/sim do not disturb a long evaluation
    os.makedirs(SCRATCH, exist_ok=True)
    sh(["rm", "-rf", SIM_SNAPSHOT])
    sh(["cp", "-r", os.path.join(ROOT, "sim"), SIM_SNAPSHOT])


def main():
    global EXTRA
    args = sys.argv[1:]
    if not args:
        print(__doc__); sys.exit(2)
    cmd = args[0]
    if cmd == "import":
        pid, src, name = args[1], args[2], args[3]
        d = os.path.join(SEEDED, name)
        os.makedirs(d, exist_ok=True)
        for f in ("patch.diff", "demo.diff", "README.md"):
            sh(["cp", os.path.join(src, f), os.path.join(d, f)])
        meta = load_meta(name)
        meta.update({"property": pid, "source": "independent sub-agent given only the text of %s and a scratch worktree" % pid})
        save_meta(name, meta)
    elif cmd == "confirm":
        for n in args[1:]:
            confirm(n)
    elif cmd == "run":
        names = []
        all_props = False
        i = 1
        while i < len(args):
            if args[i] == "--all-props": all_props = True; i += 1
            elif args[i] == "--props": props_arg = args[i + 1].split(","); i += 2; all_props = props_arg
            elif args[i] in ("--runs", "--tier", "--seed", "--scale"): EXTRA += [args[i], args[i + 1]]; i += 2
            else: names.append(args[i]); i += 1
        snapshot_sim()
        for n in names:
            meta = load_meta(n)
            props = ALL_PROPS if all_props is True else (all_props if all_props else [meta["property"]])
            run(n, props)
    elif cmd == "table":
        rows = []
        for n in sorted(os.listdir(SEEDED)):
            m = load_meta(n)
            rows.append((n, m.get("property"), m.get("confirmed"), ",".join(m.get("detected_by", [])) or "-"))
        for r in rows:
            print("%-46s %-4s confirmed=%-5s detected_by=%s" % r)


if __name__ == "__main__":
    main()
